package main

import (
	"strings"

	"golang.org/x/tools/go/ssa"
)

// installHooks wires the concurrency / footprint extensions into a function context.
func (e *Engine) installHooks(fc *fnCtx) {}

// runLemmas generates one obligation per lemma: the lemma body must follow from
// the prelude, the axioms and the lemmas stated before it.
func (e *Engine) runLemmas(prop string) {
	for i, l := range e.contracts.Lemmas {
		if len(l.Props) > 0 {
			ok := false
			for _, p := range l.Props {
				if p == prop {
					ok = true
				}
			}
			if !ok {
				continue
			}
		}
		name := "lemma." + l.Name
		// known findings on a lemma: it is re-proved under the recorded guard
		for _, k := range e.known {
			if k.covers(name) && k.guardE != nil {
				if q, ok := l.E.(*Quant); ok && q.Forall {
					l = &Axiom{Uses: l.Uses, HasUses: l.HasUses, Measure: l.Measure, Private: l.Private, Props: l.Props, Name: l.Name, Text: l.Text + "   [under known-finding guard: " + k.Guard + "]", Pkg: l.Pkg,
						E: &Quant{Forall: true, Vars: q.Vars, Triggers: q.Triggers, Body: &Binary{"==>", k.guardE, q.Body}}}
				}
			}
		}
		fc := &fnCtx{e: e, key: name, regionSort: map[string]string{}, closures: map[string]*closureInfo{}}
		st := &State{env: map[ssa.Value]Val{}, names: map[string]Val{}, heap: map[string]string{}, loopVar: map[*ssa.BasicBlock]string{}, now: "0"}
		sc := &specCtx{fc: fc, st: st, heap: st.heap, now: "0", vars: map[string]Val{}, params: map[string]Val{}, pkg: l.Pkg}
		var goal string
		func() {
			defer func() {
				if r := recover(); r != nil {
					if se, ok := r.(specError); ok {
						o := &Obligation{Name: name + ".resolves", Func: name, Kind: "contract.resolves", Status: "error", Note: se.msg, Clause: l.Text}
						e.obls = append(e.obls, o)
						e.oblByName[o.Name] = o
						return
					}
					panic(r)
				}
			}()
			if l.Measure != nil {
				// strong induction on the measure: the lemma may be assumed for all
				// instances with a strictly smaller non-negative measure
				q, ok := l.E.(*Quant)
				if !ok || !q.Forall {
					specFail("a lemma with a measure must be a universally quantified formula")
				}
				sub := map[string]Expr{}
				for _, qv := range q.Vars {
					s := SInt
					switch qv.Sort {
					case "U":
						s = SU
					case "Seq":
						s = SSeq
					case "Bool":
						s = SBool
					}
					n := fc.declare(st, "ind_"+qv.Name, s.SMT())
					sc.vars[qv.Name+"$0"] = Val{T: n, S: s}
					sub[qv.Name] = &Ident{qv.Name + "$0"}
				}
				m0 := substitute(l.Measure, sub)
				ih := &Quant{Forall: true, Vars: q.Vars, Triggers: q.Triggers,
					Body: &Binary{"==>", &Binary{"&&", &Binary{">=", l.Measure, &IntLit{"0"}}, &Binary{"<", l.Measure, m0}}, q.Body}}
				ihv := sc.eval(ih)
				st.pc = append(st.pc, ihv.T)
				v := sc.eval(substitute(q.Body, sub))
				sc.want(v, SBool, l.E)
				goal = v.T
				return
			}
			v := sc.eval(l.E)
			sc.want(v, SBool, l.E)
			goal = v.T
		}()
		if goal == "" {
			continue
		}
		// only earlier lemmas may be used
		saved := e.lemmaLimit
		e.lemmaLimit = i
		e.axCache = nil
		fc.emit(st, name, "lemma", l.Text, "", goal, nil)
		e.lemmaLimit = saved
		e.axCache = nil
	}
	_ = strings.TrimSpace
}
