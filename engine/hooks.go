package main

// installHooks wires the concurrency / footprint extensions into a function context.
func (e *Engine) installHooks(fc *fnCtx) {}

// runLemmas generates the obligations of the lemmas tagged with a property.
func (e *Engine) runLemmas(prop string) {}
