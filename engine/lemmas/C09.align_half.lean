import Mathlib.Algebra.Order.Ring.Int

/-- align_half (contract axiom in v4/agent/contracts_verif.go):
    w ≥ 1 ∧ p % (2*w) = 0 → p % w = 0, for mathematical integers (SMT-LIB `mod` = Int.emod). -/
theorem align_half (p w : Int) (_hw : w ≥ 1) (h : p % (2 * w) = 0) : p % w = 0 := by
  have h1 : (2 * w) ∣ p := Int.dvd_of_emod_eq_zero h
  have h2 : w ∣ 2 * w := Dvd.intro_left 2 rfl
  exact Int.emod_eq_zero_of_dvd (dvd_trans h2 h1)
