import Mathlib.Tactic

/-- rr (contract definition in v4/collection/contracts_verif.go, axioms rr_zero / rr_step):
    rr n 0 = 0, rr n (i+1) = if rr n i + 1 ≥ n then 0 else rr n i + 1.  For n ≥ 1 it is i mod n. -/
def rr (n : Nat) : Nat → Nat
  | 0 => 0
  | i + 1 => if rr n i + 1 ≥ n then 0 else rr n i + 1

theorem rr_is_mod (n i : Nat) (h : n ≥ 1) : rr n i = i % n := by
  induction i with
  | zero => simp [rr]
  | succ k ih =>
    simp only [rr, ih]
    have hlt : k % n < n := Nat.mod_lt k (by omega)
    have hd := Nat.mod_add_div k n
    split
    · have h2 : k % n + 1 = n := by omega
      have : k + 1 = n * (k / n + 1) := by
        rw [Nat.mul_add, Nat.mul_one]; omega
      rw [this]; simp
    · have h2 : k % n + 1 < n := by omega
      have : k + 1 = (k % n + 1) + n * (k / n) := by omega
      rw [this, Nat.add_mul_mod_self_left, Nat.mod_eq_of_lt h2]
