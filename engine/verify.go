package main

import (
	"fmt"
	"go/types"
	"regexp"
	"sort"
	"strings"

	"golang.org/x/tools/go/ssa"
)

func (fc *fnCtx) specCtxFor(st *State, fr *frame) *specCtx {
	sc := &specCtx{fc: fc, st: st, heap: st.heap, now: st.now, old: fr.entry, oldNow: fr.entryT, vars: map[string]Val{}, params: map[string]Val{}}
	if i := strings.Index(fr.key, "."); i >= 0 {
		sc.pkg = fr.key[:i]
	}
	for k, v := range fr.params {
		sc.params[k] = v
	}
	if fr.this != nil {
		sc.vars["this"] = *fr.this
	}
	for k, v := range fr.lets {
		sc.vars[k] = v
	}
	sc.cells = fc.freeCells
	return sc
}

// typeSpecOf returns the type contract of the receiver of fn, if any.
func (e *Engine) typeSpecOf(fn *ssa.Function) (*TypeSpec, *types.Named) {
	if fn.Signature.Recv() == nil {
		return nil, nil
	}
	named, ok := derefNamed(fn.Signature.Recv().Type())
	if !ok {
		return nil, nil
	}
	pkg := ""
	if named.Obj().Pkg() != nil {
		pkg = named.Obj().Pkg().Name()
	}
	return e.contracts.Types[pkg+"."+named.Obj().Name()], named
}

// VerifyFunc generates all obligations of one function under contract.
func (e *Engine) VerifyFunc(key string) {
	e.verifyFunc(key, false)
	if fs := e.contracts.Funcs[key]; fs != nil && (len(fs.IEnsures) > 0 || fs.Flags["interfered"]) && e.funcs[key] != nil {
		// interference pass: guarded state is havocked (under the lock invariant) at every Lock
		e.verifyFunc(key, true)
	}
}

func (e *Engine) verifyFunc(key string, interf bool) {
	fs := e.contracts.Funcs[key]
	fn := e.funcs[key]
	if fn == nil {
		o := &Obligation{Name: key + ".exists", Func: key, Kind: "exists", Status: "error", Note: "function under contract not found in the repository", Loc: fmt.Sprintf("%s:%d", fs.File, fs.Line)}
		e.obls = append(e.obls, o)
		e.oblByName[o.Name] = o
		return
	}
	fc := &fnCtx{e: e, fn: fn, key: key, spec: fs, regionSort: map[string]string{}, closures: map[string]*closureInfo{}}
	fc.pkg = key[:strings.Index(key, ".")]
	fc.interf = interf
	fc.eff = e.effective(fs, key)
	fc.safeMode = fc.eff.flags["safe"]
	e.installHooks(fc)
	defer func() {
		if r := recover(); r != nil {
			if te, ok := r.(translateError); ok {
				name := key + ".translates"
				o := &Obligation{Name: name, Func: key, Kind: "translates", Status: "error", Note: te.msg}
				e.obls = append(e.obls, o)
				e.oblByName[name] = o
				return
			}
			panic(r)
		}
	}()
	st := &State{env: map[ssa.Value]Val{}, names: map[string]Val{}, heap: map[string]string{}, loopVar: map[*ssa.BasicBlock]string{}, held: map[string]bool{}, ghost: map[string]string{}}
	st.now = fc.declare(st, "now", "Int")
	fr := fc.newFrame(fn, nil)
	fc.top = fr
	if e.curVars != nil {
		e.curVars[key] = loopVarsOf(fr)
	}
	fr.params = map[string]Val{}
	for i, p := range fn.Params {
		v := fc.freshVal(st, p.Name(), p.Type())
		st.env[p] = v
		st.names[p.Name()] = v
		if i == 0 && fn.Signature.Recv() != nil {
			this := v
			fr.this = &this
			if v.S == SU {
				st.pc = append(st.pc, not(eq(v.T, "nil")))
			}
		} else {
			fr.params[p.Name()] = v
			if nonNilParam(p.Type()) && !fc.eff.flags["nilok"] {
				st.pc = append(st.pc, not(eq(v.T, "nil")))
			}
		}
	}
	var fvs []string
	for _, fv := range fn.FreeVars {
		v := fc.freshVal(st, fv.Name(), fv.Type())
		st.env[fv] = v
		fr.params[fv.Name()] = v
		if _, isPtr := fv.Type().Underlying().(*types.Pointer); isPtr && v.S == SU {
			// a captured variable is the address of a distinct live variable
			st.pc = append(st.pc, not(eq(v.T, "nil")))
			fvs = append(fvs, v.T)
			// in contracts the variable's name denotes the current content of its cell
			if fc.freeCells == nil {
				fc.freeCells = map[string]Val{}
			}
			fc.freeCells[fv.Name()] = v
			delete(fr.params, fv.Name())
		}
	}
	if len(fvs) > 1 {
		st.pc = append(st.pc, "(distinct "+strings.Join(fvs, " ")+")")
	}
	// positional aliases and names used by implemented interface contracts
	fc.bindIfaceParams(fr)
	ts, named := e.typeSpecOf(fn)
	if fr.this != nil && named != nil {
		if fr.this.S == SU {
			fc.trackObject(st, *fr.this, named)
		} else if fr.this.S == SSlice {
			b := fc.box(st, *fr.this)
			fc.trackSliceBox(st, b.T, *fr.this)
		}
	}
	fr.entry = copyHeap(st.heap)
	fr.entryT = st.now
	// type invariant and preconditions are assumed
	if ts != nil && !fc.eff.flags["noinv"] {
		sc := fc.specCtxFor(st, fr)
		for _, inv := range ts.Invariants {
			if fc.interf && mentionsGuarded(ts, inv.Text) {
				continue // quiescent-state invariant: other threads may be in the middle of an operation
			}
			if g := fc.evalBoolClause(sc, inv, ""); g != "" {
				st.pc = append(st.pc, g)
			}
		}
	}
	if ts != nil {
		sc := fc.specCtxFor(st, fr)
		for _, h := range ts.Hypotheses {
			if g := fc.evalBoolClause(sc, h, ""); g != "" {
				st.pc = append(st.pc, g)
			}
		}
		// construction invariants hold of every object of the type (proved where it is allocated, immutable afterwards)
		for _, h := range ts.ConstInvs {
			if g := fc.evalBoolClause(sc, h, ""); g != "" {
				st.pc = append(st.pc, g)
			}
		}
	}
	fr.lets = map[string]Val{}
	for _, l := range fc.eff.lets {
		sc := fc.specCtxForClause(st, fr, l)
		func() {
			defer func() {
				if r := recover(); r != nil {
					if se, ok := r.(specError); ok {
						fc.contractError(st, l.Clause, se.msg)
						return
					}
					panic(r)
				}
			}()
			v := sc.eval(l.E)
			n := fc.declare(st, "let_"+l.Name, v.S.SMT())
			st.pc = append(st.pc, eq(n, v.T))
			v.T = n
			fr.lets[l.Name] = v
		}()
	}
	for _, r := range append(append([]effClause(nil), fc.eff.requires...), fc.eff.assumes...) {
		sc := fc.specCtxForClause(st, fr, r)
		if g := fc.evalBoolClause(sc, r.Clause, ""); g != "" {
			st.pc = append(st.pc, g)
		}
	}
	// vacuity guard: the assumptions at entry must not be contradictory
	fc.emitQ(st, key+".smoke.entry", "smoke", "entry assumptions are satisfiable", "", "false", nil, true)

	fr.ret = func(st *State, res []Val) { fc.atReturn(st, fr, res, ts) }
	fr.pan = func(st *State, why string) { fc.atPanic(st, fr, why, ts) }
	// every hint must be attached to a call that exists (a hint on a vanished call is silently never checked)
	if fs != nil {
		for k, hs := range fs.Hints {
			n := k
			if n < 0 {
				n = -n
			}
			if n < 1 || n > len(fr.callOrd) {
				for _, h := range hs {
					fc.contractError(st, h, fmt.Sprintf("hint refers to call %d but the function has %d calls", n, len(fr.callOrd)))
				}
			}
		}
		for n := range fs.Loops {
			found := false
			for _, li := range fr.loops {
				if li.ordinal == n {
					found = true
				}
			}
			if !found {
				if fc.orphanLoops == nil {
					fc.orphanLoops = map[int]*LoopSpec{}
					fc.adoptedBy = map[*ssa.BasicBlock]*LoopSpec{}
					fc.adoptedN = map[int]*ssa.BasicBlock{}
				}
				fc.orphanLoops[n] = fs.Loops[n]
			}
		}
	}
	fc.execBlock(st, fr, fn.Blocks[0], nil)
	// a hint whose target call is neither in the body nor in a helper executed in place is an error
	if fs != nil {
		for key, hs := range fs.OrphanHints {
			if !fc.usedOrphanHints[key] {
				fc.contractError(st, hs[0], fmt.Sprintf("hint target call %s does not exist in %s", strings.TrimPrefix(key, "-"), key0(fc.key)))
			}
		}
	}
	// a loop clause that names no loop of the body is an error unless the loop was found, without a clause of its
	// own, in a contract-less callee executed in place (the loop was extracted into a helper function)
	for n := range fc.orphanLoops {
		_, adopted := fc.adoptedN[n]
		if !adopted {
			fc.contractError(st, &Clause{Text: fmt.Sprintf("loop %d", n), File: fs.File, Line: fs.Line}, fmt.Sprintf("contract mentions loop %d but the function has %d loops", n, len(fr.loops)))
		}
	}
	if fc.aborted != "" {
		name := key + ".translates"
		o := &Obligation{Name: name, Func: key, Kind: "translates", Status: "error", Note: fc.aborted}
		e.obls = append(e.obls, o)
		e.oblByName[name] = o
	}
}

func (fc *fnCtx) bindIfaceParams(fr *frame) {
	// parameters are also reachable positionally as $1, $2 ...
	i := 0
	for j, p := range fc.fn.Params {
		if j == 0 && fc.fn.Signature.Recv() != nil {
			continue
		}
		i++
		fr.params[fmt.Sprintf("$%d", i)] = fr.params[p.Name()]
	}
}

// specCtxForClause binds the parameter names of the signature the clause was written
// against (an interface method's names may differ from the implementation's).
func (fc *fnCtx) specCtxForClause(st *State, fr *frame, c effClause) *specCtx {
	sc := fc.specCtxFor(st, fr)
	i := 0
	for j, p := range fc.fn.Params {
		if j == 0 && fc.fn.Signature.Recv() != nil {
			continue
		}
		if i < len(c.params) && c.params[i] != "" && c.params[i] != "_" {
			sc.params[c.params[i]] = fr.params[p.Name()]
		}
		i++
	}
	return sc
}

func key0(k string) string { return k }

// mentionsGuarded: does the clause text name a field that is declared guarded_by a mutex?
func mentionsGuarded(ts *TypeSpec, text string) bool {
	for f := range ts.GuardedBy {
		if strings.Contains(text, "."+f) {
			return true
		}
	}
	return false
}

func (fc *fnCtx) postName(c effClause, kind string) string {
	if c.owner == fc.spec {
		return fmt.Sprintf("%s.%s%d", fc.key, kind, c.Ord)
	}
	return fmt.Sprintf("%s.%s.%s.%d", fc.key, kind, shortKey(c.owner.Pkg+"."+c.owner.Key), c.Ord)
}

func (fc *fnCtx) atReturn(st *State, fr *frame, res []Val, ts *TypeSpec) {
	// vacuity guard: every return statement must be reachable on some path with satisfiable assumptions
	blk := "?"
	for i := len(st.trace) - 1; i >= 0; i-- {
		if strings.HasPrefix(st.trace[i], "b") && !strings.ContainsAny(st.trace[i], "{}(") {
			blk = st.trace[i]
			break
		}
	}
	fc.emitQ(st, fc.key+".smoke.return@"+blk, "smoke", "the return statement is reachable under the assumptions", "", "false", nil, true)
	fc.runDefers(st, fr, func(st *State) {
		if fc.interf {
			for _, en := range fc.spec.IEnsures {
				sc := fc.specCtxFor(st, fr)
				sc.result = res
				name := fmt.Sprintf("%s.ipost%d", fc.key, en.Ord)
				if g := fc.evalBoolClause(sc, en, name); g != "" {
					fc.emit(st, name, "ipost", en.Text, clauseLoc(en), g, en.Tags)
				}
			}
			return
		}
		for _, en := range fc.eff.ensures {
			sc := fc.specCtxForClause(st, fr, en)
			sc.result = res
			name := fc.postName(en, "post")
			if g := fc.evalBoolClause(sc, en.Clause, name); g != "" {
				fc.emit(st, name, "post", en.Text, clauseLoc(en.Clause), g, en.Tags)
			}
		}
		if ts != nil && !fc.eff.flags["noinv"] {
			sc := fc.specCtxFor(st, fr)
			for _, inv := range ts.Invariants {
				name := fmt.Sprintf("%s.inv%d", fc.key, inv.Ord)
				if g := fc.evalBoolClause(sc, inv, name); g != "" {
					fc.emit(st, name, "inv", inv.Text, clauseLoc(inv), g, inv.Tags)
				}
			}
		}
		fc.checkConstInvs(st, fr)
		fc.checkFrame(st, fr, "frame")
		if len(fc.exitHooks) > 0 {
			for _, h := range fc.exitHooks {
				h(st, fr, false)
			}
		}
	})
}

// checkConstInvs: every object of a type with construction invariants that this call allocated satisfies them when
// the call returns (their fields are immutable: nobody can change them afterwards).
func (fc *fnCtx) checkConstInvs(st *State, fr *frame) {
	for _, ca := range st.cAllocs {
		ts := fc.e.typeSpecNamed(ca.named)
		if ts == nil {
			continue
		}
		sc := fc.specCtxFor(st, fr)
		n := sc.withVar("this", Val{T: ca.ref, S: SU, GT: ptrIfStruct(ca.named)})
		for _, ci := range ts.ConstInvs {
			name := fmt.Sprintf("%s.constinv.%s.%d@%s", fc.key, ca.named.Obj().Name(), ci.Ord, ca.label)
			if g := fc.evalBoolClause(n, ci, name); g != "" {
				fc.emit(st, name, "constinv", ci.Text, clauseLoc(ci), g, ci.Tags)
			}
		}
	}
}

// typeSpecNamed returns the type contract of a named type.
func (e *Engine) typeSpecNamed(named *types.Named) *TypeSpec {
	pkg := ""
	if named.Obj().Pkg() != nil {
		pkg = named.Obj().Pkg().Name()
	}
	return e.contracts.Types[pkg+"."+named.Obj().Name()]
}

func (fc *fnCtx) atPanic(st *State, fr *frame, why string, ts *TypeSpec) {
	st.trace = append(st.trace, "PANIC("+why+")")
	fc.runDefers(st, fr, func(st *State) {
		if fc.eff.flags["nopanic"] {
			fc.emit(st, fc.key+".nopanic", "nopanic", "the function never panics", "", "false", nil)
			return
		}
		for _, x := range fc.eff.xensures {
			sc := fc.specCtxForClause(st, fr, x)
			name := fc.postName(x, "xpost")
			if g := fc.evalBoolClause(sc, x.Clause, name); g != "" {
				fc.emit(st, name, "xpost", x.Text, clauseLoc(x.Clause), g, x.Tags)
			}
		}
		if ts != nil && !fc.eff.flags["noinv"] && !fc.eff.flags["noxinv"] {
			sc := fc.specCtxFor(st, fr)
			for _, inv := range ts.Invariants {
				name := fmt.Sprintf("%s.xinv%d", fc.key, inv.Ord)
				if g := fc.evalBoolClause(sc, inv, name); g != "" {
					fc.emit(st, name, "xinv", inv.Text, clauseLoc(inv), g, inv.Tags)
				}
			}
		}
		fc.checkFrame(st, fr, "xframe")
		for _, h := range fc.exitHooks {
			h(st, fr, true)
		}
	})
}

// runDefers runs the deferred calls registered on this path (last first): closures are
// executed in place, other calls through their contracts.
func (fc *fnCtx) runDefers(st *State, fr *frame, k func(*State)) {
	if len(st.defers) == 0 {
		k(st)
		return
	}
	ds := st.defers
	st.defers = nil
	var run func(st *State, i int)
	run = func(st *State, i int) {
		if i < 0 {
			k(st)
			return
		}
		d := ds[i]
		nf := *fr
		nf.pan = func(st *State, why string) {
			// a panic inside a deferred call: conservatively continue with the remaining ones
			run(st, i-1)
		}
		if mc, ok := d.Common().Value.(*ssa.MakeClosure); ok && !d.Common().IsInvoke() {
			var binds []Val
			for _, b := range mc.Bindings {
				binds = append(binds, fc.val(st, b))
			}
			fc.inlineClosure(st, &nf, fmt.Sprintf("defer%d", i+1), &closureInfo{fn: mc.Fn.(*ssa.Function), binds: binds}, fc.callArgs(st, d.Common()), func(st *State, _ Val) { run(st, i-1) })
			return
		}
		spec, recv, args, resT := fc.calleeSpec(st, fr, d)
		if spec == nil {
			// a contract-less function of the repository is executed in place, like an ordinary call
			if callee := d.Common().StaticCallee(); callee != nil && fc.e.inRepo(callee) && len(originOf(callee).Blocks) > 0 {
				fc.inline(st, &nf, fmt.Sprintf("defer%d", i+1), originOf(callee), recv, args, func(st *State, _ Val) { run(st, i-1) })
				return
			}
			fc.e.externals["deferred call without contract in "+fr.key] = true
			run(st, i-1)
			return
		}
		if fc.interf && spec.key == "(*sync.Mutex).Unlock" {
			fc.lockInvariant(st, &nf, d.Common(), fmt.Sprintf("defer%d", i+1), true)
		}
		fc.applySpec(st, &nf, fmt.Sprintf("defer%d", i+1), spec, recv, args, resT, func(st *State, _ []Val) { run(st, i-1) })
	}
	run(st, len(ds)-1)
}

// allowedTargets evaluates the modifies clauses of the function under verification in its entry
// state: region -> objects that may be written ("*" = any object of that region).
func (fc *fnCtx) allowedTargets(st *State, fr *frame) (map[string][]string, bool) {
	sc := fc.specCtxFor(st, fr)
	sc.heap = fr.entry
	sc.now = fr.entryT
	allowed := map[string][]string{}
	everything := false
	for _, m := range fc.eff.modifiesFor() {
		msc := fc.specCtxForClause(st, fr, m)
		msc.heap = fr.entry
		msc.now = fr.entryT
		for _, loc := range m.E.(*CallE).Args {
			func() {
				defer func() {
					if r := recover(); r != nil {
						if se, ok := r.(specError); ok {
							fc.contractError(st, m.Clause, se.msg)
							return
						}
						panic(r)
					}
				}()
				switch l := loc.(type) {
				case *Ident:
					if l.Name == "everything" {
						everything = true
					}
				case *CallE:
					if _, ok := fc.e.contracts.Models[l.Fun]; ok {
						obj := msc.eval(l.Args[0])
						if obj.S == SSlice {
							allowed["elems.U"] = append(allowed["elems.U"], app("sl_arr", obj.T))
						} else {
							allowed["M."+l.Fun] = append(allowed["M."+l.Fun], obj.T)
							// writing the model of an object with a known representation allows writing that representation
							fc.allowRepresentation(msc, l.Fun, obj, allowed)
						}
					} else if l.Fun == "elems" {
						obj := msc.eval(l.Args[0])
						t := obj.T
						if obj.S == SSlice {
							t = app("sl_arr", obj.T)
						}
						allowed["elems.U"] = append(allowed["elems.U"], t)
					} else if l.Fun == "mapof" {
						obj := msc.eval(l.Args[0])
						for _, r := range []string{"map.dom", "map.get", "map.card"} {
							allowed[r] = append(allowed[r], obj.T)
						}
					} else if l.Fun == "global" {
						if id, ok := l.Args[0].(*Ident); ok {
							rn := "global." + msc.pkg + "." + id.Name
							allowed[rn] = append(allowed[rn], "*")
						}
					} else if l.Fun == "region" {
						if id, ok := l.Args[0].(*Ident); ok {
							name := id.Name
							if _, isModel := fc.e.contracts.Models[name]; isModel {
								name = "M." + name
							}
							allowed[name] = append(allowed[name], "*")
						}
					}
				case *FieldE:
					obj := msc.eval(l.X)
					if named, ok := derefNamed(obj.GT); ok {
						allowed[fieldRegion(named.Origin(), l.Name)] = append(allowed[fieldRegion(named.Origin(), l.Name)], obj.T)
					}
				}
			}()
		}
	}
	return allowed, everything
}

// checkWrite (property C19): a write to (region, obj) — a store executed by this function or a
// location a callee's contract says it may modify — must hit an object this call allocated or a
// location the function's own modifies clauses allow. Unlike the two-state frame obligation this
// also sees transient writes that are undone before the function returns.
func (fc *fnCtx) checkWrite(st *State, fr *frame, site, region, obj string, extra ...string) {
	if fc.e.prop != "C19" || fc.top == nil || fc.spec == nil || fc.eff.flags["noframe"] {
		return
	}
	if strings.HasPrefix(region, "cell.") || strings.HasPrefix(region, "range.") || strings.HasPrefix(region, "chan.") {
		return
	}
	allowed, everything := fc.allowedTargets(st, fc.top)
	if everything {
		return
	}
	alts := []string{fmt.Sprintf("(>= (atime %s) %s)", obj, fc.top.entryT), eq(obj, "nil")}
	if strings.HasPrefix(region, "global.") || region == "*" || obj == "" {
		alts = []string{"false"} // not an object: only an explicit modifies clause allows it
	}
	alts = append(alts, extra...)
	for _, t := range allowed[region] {
		if t == "*" {
			return
		}
		alts = append(alts, eq(obj, t))
	}
	fc.emit(st, fc.oblName(fr, fmt.Sprintf("writes.%s@%s", region, site)), "writes",
		"a write to region "+region+" hits an object allocated by this call or named by the function's modifies clauses", "", or(alts...), []string{"C19"})
}

// checkFrame: every region changed by the function must agree with the entry
// heap on every object allocated at entry that is not named in a modifies clause.
func (fc *fnCtx) checkFrame(st *State, fr *frame, kind string) {
	if fc.eff.flags["noframe"] || fc.spec == nil {
		return
	}
	allowed, everything := fc.allowedTargets(st, fr)
	if everything {
		return
	}
	regions := sortedKeys(st.heap)
	for _, r := range regions {
		cur := st.heap[r]
		ent, ok := fr.entry[r]
		if !ok {
			ent = sanitize(r) + "!0"
		}
		if cur == ent {
			continue
		}
		srt := fc.regionSort[r]
		if !strings.HasPrefix(srt, "(Array U ") {
			if strings.HasPrefix(r, "global.") {
				continue
			}
			continue
		}
		if strings.HasPrefix(r, "cell.") || strings.HasPrefix(r, "range.") || strings.HasPrefix(r, "chan.") {
			continue // local cells and iterator state: never visible to the caller unless escaped
		}
		var excl []string
		star := false
		for _, t := range allowed[r] {
			if t == "*" {
				star = true
			}
			excl = append(excl, not(eq("o", t)))
		}
		if star {
			continue
		}
		goal := fmt.Sprintf("(forall ((o U)) (=> %s (= (select %s o) (select %s o))))", and(append([]string{fmt.Sprintf("(< (atime o) %s)", fr.entryT)}, excl...)...), cur, ent)
		fc.emit(st, fmt.Sprintf("%s.%s.%s", fc.key, kind, r), kind, "writes only what the modifies clauses allow: region "+r, "", goal, nil)
	}
}

func (fc *fnCtx) allowRepresentation(sc *specCtx, model string, obj Val, allowed map[string][]string) {
	named, ok := derefNamed(obj.GT)
	if !ok {
		return
	}
	if _, isIface := named.Underlying().(*types.Interface); isIface {
		return
	}
	pkg := ""
	if named.Obj().Pkg() != nil {
		pkg = named.Obj().Pkg().Name()
	}
	ts := fc.e.contracts.Types[pkg+"."+named.Obj().Name()]
	if ts == nil || ts.Models[model] == nil {
		return
	}
	// fields mentioned in the model clause may be written, and the models of the objects they hold
	var walk func(e Expr)
	walk = func(e Expr) {
		switch x := e.(type) {
		case *FieldE:
			if id, ok := x.X.(*Ident); ok && id.Name == "this" {
				rn := fieldRegion(named.Origin(), x.Name)
				allowed[rn] = append(allowed[rn], obj.T)
			}
			walk(x.X)
		case *CallE:
			if _, isModel := fc.e.contracts.Models[x.Fun]; isModel && len(x.Args) == 1 {
				n := sc.withVar("this", Val{T: obj.T, S: obj.S, GT: obj.GT})
				inner := n.eval(x.Args[0])
				if inner.S == SSlice {
					allowed["elems.U"] = append(allowed["elems.U"], app("sl_arr", inner.T))
				} else {
					allowed["M."+x.Fun] = append(allowed["M."+x.Fun], inner.T)
				}
			}
			for _, a := range x.Args {
				walk(a)
			}
		case *Binary:
			walk(x.X)
			walk(x.Y)
		case *Unary:
			walk(x.X)
		case *IndexE:
			walk(x.X)
			walk(x.I)
		}
	}
	walk(ts.Models[model].E)
	// the object owns what its fields hold: its own fields, the Go maps and the
	// objects they refer to at entry may be written (ownership: never shared)
	if stt, ok := named.Underlying().(*types.Struct); ok {
		for i := 0; i < stt.NumFields(); i++ {
			f := stt.Field(i)
			if fc.e.immutableFn(named, f.Name()) != "" {
				continue
			}
			rn := fieldRegion(named.Origin(), f.Name())
			allowed[rn] = append(allowed[rn], obj.T)
			fs := sortOfType(f.Type())
			if fs != SU {
				continue
			}
			cur := fc.regionIn(sc.st, sc.heap, rn, regionArraySort(fs))
			held := sel(cur, obj.T)
			switch f.Type().Underlying().(type) {
			case *types.Map:
				for _, r := range []string{"map.dom", "map.get", "map.card"} {
					allowed[r] = append(allowed[r], held)
				}
			case *types.Interface, *types.Pointer:
				for m := range fc.e.contracts.Models {
					allowed["M."+m] = append(allowed["M."+m], held)
				}
			}
		}
	}
}

// user axioms ----------------------------------------------------------------

var identRe = regexp.MustCompile(`u\.[A-Za-z_][A-Za-z0-9_]*`)

type cachedAxiom struct {
	text  string
	syms  []string
	trigs [][]string // declared symbols of each explicit trigger alternative of the outermost quantifier
}

// declaredIn collects the declared (uninterpreted) spec functions an expression mentions.
func (e *Engine) declaredIn(x Expr, out map[string]bool) {
	switch x := x.(type) {
	case *CallE:
		if _, ok := e.contracts.Decls[x.Fun]; ok {
			out["u."+x.Fun] = true
		}
		if d, ok := e.contracts.Defines[x.Fun]; ok {
			e.declaredIn(d.Body, out)
		}
		for _, a := range x.Args {
			e.declaredIn(a, out)
		}
	case *Binary:
		e.declaredIn(x.X, out)
		e.declaredIn(x.Y, out)
	case *Unary:
		e.declaredIn(x.X, out)
	case *IndexE:
		e.declaredIn(x.X, out)
		e.declaredIn(x.I, out)
	case *SliceE:
		e.declaredIn(x.X, out)
	case *FieldE:
		e.declaredIn(x.X, out)
	case *Quant:
		e.declaredIn(x.Body, out)
	}
}

func (e *Engine) axiomText(fc *fnCtx, st *State, body string) string {
	if len(e.contracts.Decls) == 0 && len(e.contracts.Axioms) == 0 {
		return ""
	}
	usesKey := ""
	if fc.spec != nil {
		usesKey = strings.Join(fc.spec.Uses, ",")
	}
	if e.axCache == nil || e.axCacheKey != usesKey {
		e.axCache = map[string]*cachedAxiom{}
		e.axCacheKey = usesKey
		var all []*Axiom
		for _, a := range e.contracts.Axioms {
			if a.Private {
				// definitional unfoldings: only inside induction proofs or when a lemma asks for them
				if e.lemmaLimit < 0 {
					continue
				}
				cur := e.contracts.Lemmas[e.lemmaLimit]
				ok := cur.Measure != nil
				for _, u := range cur.Uses {
					if u == a.Name {
						ok = true
					}
				}
				if !ok {
					continue
				}
			}
			all = append(all, a)
		}
		for i, l := range e.contracts.Lemmas {
			if e.lemmaLimit >= 0 {
				cur := e.contracts.Lemmas[e.lemmaLimit]
				if i < e.lemmaLimit {
					if !cur.HasUses {
						all = append(all, l)
					} else {
						for _, u := range cur.Uses {
							if u == l.Name {
								all = append(all, l)
							}
						}
					}
				}
				continue
			}
			for _, u := range strings.Split(usesKey, ",") {
				if u == l.Name {
					all = append(all, l)
				}
			}
		}
		for _, a := range all {
			tmp := &State{env: map[ssa.Value]Val{}, names: map[string]Val{}, heap: map[string]string{}, now: "0"}
			sc := &specCtx{fc: fc, st: tmp, heap: tmp.heap, now: "0", vars: map[string]Val{}, params: map[string]Val{}, pkg: a.Pkg}
			func() {
				defer func() {
					if r := recover(); r != nil {
						e.warnings[fmt.Sprintf("axiom %s does not translate: %v", a.Name, r)] = true
					}
				}()
				v := sc.eval(a.E)
				ca := &cachedAxiom{text: v.T}
				if q, ok := a.E.(*Quant); ok {
					for _, tr := range q.Triggers {
						m := map[string]bool{}
						for _, t := range tr {
							e.declaredIn(t, m)
						}
						var ts []string
						for k := range m {
							ts = append(ts, k)
						}
						if len(ts) > 0 {
							ca.trigs = append(ca.trigs, ts)
						}
					}
				}
				seen := map[string]bool{}
				for _, m := range identRe.FindAllString(v.T, -1) {
					if !seen[m] {
						seen[m] = true
						ca.syms = append(ca.syms, m)
					}
				}
				e.axCache[a.Name] = ca
			}()
		}
	}
	used := map[string]bool{}
	for _, m := range identRe.FindAllString(body, -1) {
		used[m] = true
	}
	// closure: axioms mentioning a used symbol are included, which may add symbols
	include := map[string]bool{}
	changed := true
	for changed {
		changed = false
		for name, ca := range e.axCache {
			if include[name] {
				continue
			}
			hit := false
			if len(ca.trigs) > 0 {
				// an axiom with explicit triggers can only fire when some trigger's symbols all occur
				for _, tr := range ca.trigs {
					all := true
					for _, s := range tr {
						if !used[s] {
							all = false
						}
					}
					if all {
						hit = true
					}
				}
			} else {
				for _, s := range ca.syms {
					if used[s] {
						hit = true
					}
				}
			}
			if hit {
				include[name] = true
				changed = true
				for _, s := range ca.syms {
					used[s] = true
				}
			}
		}
	}
	var sb strings.Builder
	var names []string
	for n := range used {
		names = append(names, n)
	}
	sort.Strings(names)
	for _, n := range names {
		d := e.contracts.Decls[strings.TrimPrefix(n, "u.")]
		if d == nil {
			continue
		}
		var as []string
		for _, a := range d.Args {
			as = append(as, sortByName(a).SMT())
		}
		if len(as) == 0 {
			fmt.Fprintf(&sb, "(declare-const %s %s)\n", n, sortByName(d.Res).SMT())
		} else {
			fmt.Fprintf(&sb, "(declare-fun %s (%s) %s)\n", n, strings.Join(as, " "), sortByName(d.Res).SMT())
		}
	}
	var an []string
	for n := range include {
		an = append(an, n)
	}
	sort.Strings(an)
	for _, n := range an {
		fmt.Fprintf(&sb, "(assert %s) ; axiom %s\n", e.axCache[n].text, n)
	}
	return sb.String()
}

// nonNilParam: parameters of a named, non-empty interface type are assumed
// non-nil at entry and must be shown non-nil at call sites (safety precondition).
func nonNilParam(t types.Type) bool {
	if _, ok := t.(*types.TypeParam); ok {
		return false
	}
	n, ok := t.(*types.Named)
	if !ok {
		return false
	}
	if n.Obj().Pkg() == nil {
		return false // the predeclared error type: nil is its normal value
	}
	i, ok := n.Underlying().(*types.Interface)
	return ok && i.NumMethods() > 0
}
