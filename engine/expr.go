package main

// Contract expression language: lexer, AST and Pratt parser.
//
//   expr := Go-like infix:  <==>  ==>  ||  &&  !  == != < <= > >=  ++  + -  * / %
//           forall x, y [Sort] :: e | exists ... | old(e) | f(args) | e.f | e[i] | e[a:b]
//           integer literals (incl. 2^63 style powers), true, false, nil, result, this

import (
	"fmt"
	"strings"
	"unicode"
)

type Expr interface{ String() string }

type (
	Ident   struct{ Name string }
	IntLit  struct{ Val string }
	BoolLit struct{ Val bool }
	StrLit  struct{ Val string }
	Unary   struct {
		Op string
		X  Expr
	}
	Binary struct {
		Op   string
		X, Y Expr
	}
	CallE struct {
		Fun  string
		Args []Expr
	}
	FieldE struct {
		X    Expr
		Name string
	}
	IndexE struct{ X, I Expr }
	SliceE struct{ X, Lo, Hi Expr }
	QVar   struct{ Name, Sort string }
	Quant  struct {
		Forall   bool
		Vars     []QVar
		Body     Expr
		Triggers [][]Expr
	}
)

func (e *Ident) String() string   { return e.Name }
func (e *IntLit) String() string  { return e.Val }
func (e *BoolLit) String() string { return fmt.Sprint(e.Val) }
func (e *StrLit) String() string  { return fmt.Sprintf("%q", e.Val) }
func (e *Unary) String() string   { return e.Op + e.X.String() }
func (e *Binary) String() string {
	return "(" + e.X.String() + " " + e.Op + " " + e.Y.String() + ")"
}
func (e *CallE) String() string {
	var a []string
	for _, x := range e.Args {
		a = append(a, x.String())
	}
	return e.Fun + "(" + strings.Join(a, ", ") + ")"
}
func (e *FieldE) String() string { return e.X.String() + "." + e.Name }
func (e *IndexE) String() string { return e.X.String() + "[" + e.I.String() + "]" }
func (e *SliceE) String() string {
	lo, hi := "", ""
	if e.Lo != nil {
		lo = e.Lo.String()
	}
	if e.Hi != nil {
		hi = e.Hi.String()
	}
	return e.X.String() + "[" + lo + ":" + hi + "]"
}
func (e *Quant) String() string {
	q := "exists"
	if e.Forall {
		q = "forall"
	}
	var v []string
	for _, x := range e.Vars {
		v = append(v, x.Name+" "+x.Sort)
	}
	return "(" + q + " " + strings.Join(v, ", ") + " :: " + e.Body.String() + ")"
}

type tok struct {
	kind string // id, int, op, eof
	text string
}

func lexExpr(s string) ([]tok, error) {
	var toks []tok
	i := 0
	ops := []string{"<==>", "==>", "::", "==", "!=", "<=", ">=", "&&", "||", "++", "<", ">", "+", "-", "*", "/", "%", "!", "(", ")", "[", "]", "{", "}", ",", ".", ":", "^"}
	for i < len(s) {
		c := rune(s[i])
		switch {
		case unicode.IsSpace(c):
			i++
		case unicode.IsLetter(c) || c == '_' || c == '$':
			j := i
			for j < len(s) && (unicode.IsLetter(rune(s[j])) || unicode.IsDigit(rune(s[j])) || s[j] == '_' || s[j] == '$') {
				j++
			}
			toks = append(toks, tok{"id", s[i:j]})
			i = j
		case c == '"':
			j := i + 1
			for j < len(s) && s[j] != '"' {
				j++
			}
			if j >= len(s) {
				return nil, fmt.Errorf("unterminated string literal in %q", s)
			}
			toks = append(toks, tok{"str", s[i+1 : j]})
			i = j + 1
		case unicode.IsDigit(c):
			j := i
			for j < len(s) && unicode.IsDigit(rune(s[j])) {
				j++
			}
			toks = append(toks, tok{"int", s[i:j]})
			i = j
		default:
			found := false
			for _, op := range ops {
				if strings.HasPrefix(s[i:], op) {
					toks = append(toks, tok{"op", op})
					i += len(op)
					found = true
					break
				}
			}
			if !found {
				return nil, fmt.Errorf("unexpected character %q in %q", c, s)
			}
		}
	}
	toks = append(toks, tok{"eof", ""})
	return toks, nil
}

type exprParser struct {
	toks []tok
	pos  int
	src  string
}

func ParseExpr(s string) (e Expr, err error) {
	toks, err := lexExpr(s)
	if err != nil {
		return nil, err
	}
	p := &exprParser{toks: toks, src: s}
	defer func() {
		if r := recover(); r != nil {
			err = fmt.Errorf("parse error in %q: %v", s, r)
		}
	}()
	e = p.parse(0)
	if p.peek().kind != "eof" {
		panic(fmt.Sprintf("trailing token %q", p.peek().text))
	}
	return e, nil
}

func (p *exprParser) peek() tok { return p.toks[p.pos] }
func (p *exprParser) next() tok { t := p.toks[p.pos]; p.pos++; return t }
func (p *exprParser) expect(op string) {
	t := p.next()
	if t.text != op {
		panic(fmt.Sprintf("expected %q, found %q", op, t.text))
	}
}

var binPrec = map[string]int{
	"<==>": 1, "==>": 2, "||": 3, "&&": 4,
	"==": 5, "!=": 5, "<": 5, "<=": 5, ">": 5, ">=": 5,
	"++": 6, "+": 7, "-": 7, "*": 8, "/": 8, "%": 8,
}

func (p *exprParser) parse(minPrec int) Expr {
	lhs := p.parseUnary()
	for {
		t := p.peek()
		if t.kind != "op" {
			return lhs
		}
		prec, ok := binPrec[t.text]
		if !ok || prec < minPrec {
			return lhs
		}
		p.next()
		var rhs Expr
		if t.text == "==>" || t.text == "<==>" {
			rhs = p.parse(prec) // right associative
		} else {
			rhs = p.parse(prec + 1)
		}
		lhs = &Binary{t.text, lhs, rhs}
	}
}

func (p *exprParser) parseUnary() Expr {
	t := p.peek()
	if t.kind == "op" && (t.text == "!" || t.text == "-") {
		p.next()
		x := p.parseUnary()
		return &Unary{t.text, x}
	}
	return p.parsePostfix(p.parsePrimary())
}

func (p *exprParser) parsePrimary() Expr {
	t := p.next()
	switch t.kind {
	case "str":
		return &StrLit{t.text}
	case "int":
		if p.peek().text == "^" {
			p.next()
			e := p.next()
			if e.kind != "int" {
				panic("exponent must be an integer literal")
			}
			return &IntLit{pow(t.text, e.text)}
		}
		return &IntLit{t.text}
	case "id":
		switch t.text {
		case "true":
			return &BoolLit{true}
		case "false":
			return &BoolLit{false}
		case "forall", "exists":
			var vars []QVar
			for {
				n := p.next()
				if n.kind != "id" {
					panic("quantified variable expected")
				}
				v := QVar{n.text, ""}
				if p.peek().kind == "id" {
					v.Sort = p.next().text
				}
				vars = append(vars, v)
				if p.peek().text == "," {
					p.next()
					continue
				}
				break
			}
			p.expect("::")
			var triggers [][]Expr
			for p.peek().text == "{" {
				p.next()
				var tr []Expr
				for {
					tr = append(tr, p.parse(0))
					if p.peek().text == "," {
						p.next()
						continue
					}
					break
				}
				p.expect("}")
				triggers = append(triggers, tr)
			}
			body := p.parse(0)
			// propagate sorts backwards: "i, j Int" gives both Int
			for i := len(vars) - 2; i >= 0; i-- {
				if vars[i].Sort == "" {
					vars[i].Sort = vars[i+1].Sort
				}
			}
			return &Quant{t.text == "forall", vars, body, triggers}
		}
		if p.peek().text == "(" {
			p.next()
			var args []Expr
			if p.peek().text != ")" {
				for {
					args = append(args, p.parse(0))
					if p.peek().text == "," {
						p.next()
						continue
					}
					break
				}
			}
			p.expect(")")
			return &CallE{t.text, args}
		}
		return &Ident{t.text}
	case "op":
		if t.text == "(" {
			e := p.parse(0)
			p.expect(")")
			return e
		}
	}
	panic(fmt.Sprintf("unexpected token %q", t.text))
}

func (p *exprParser) parsePostfix(x Expr) Expr {
	for {
		t := p.peek()
		switch t.text {
		case ".":
			p.next()
			n := p.next()
			if n.kind != "id" && n.kind != "int" {
				panic("field name expected")
			}
			x = &FieldE{x, n.text}
		case "[":
			p.next()
			var lo, hi Expr
			if p.peek().text == ":" {
				p.next()
				if p.peek().text != "]" {
					hi = p.parse(0)
				}
				p.expect("]")
				x = &SliceE{x, lo, hi}
				continue
			}
			lo = p.parse(0)
			if p.peek().text == ":" {
				p.next()
				if p.peek().text != "]" {
					hi = p.parse(0)
				}
				p.expect("]")
				x = &SliceE{x, lo, hi}
				continue
			}
			p.expect("]")
			x = &IndexE{x, lo}
		default:
			return x
		}
	}
}

func pow(b, e string) string {
	var base, exp int
	fmt.Sscan(b, &base)
	fmt.Sscan(e, &exp)
	// big-int free: only powers of two up to 2^64 are used
	r := []byte("1")
	for i := 0; i < exp; i++ {
		r = mulSmall(r, base)
	}
	return string(r)
}

func mulSmall(d []byte, m int) []byte {
	carry := 0
	out := make([]byte, len(d))
	for i := len(d) - 1; i >= 0; i-- {
		v := int(d[i]-'0')*m + carry
		out[i] = byte('0' + v%10)
		carry = v / 10
	}
	for carry > 0 {
		out = append([]byte{byte('0' + carry%10)}, out...)
		carry /= 10
	}
	return out
}

// substitute replaces identifiers by expressions (macro expansion).
func substitute(e Expr, m map[string]Expr) Expr {
	switch e := e.(type) {
	case *Ident:
		if r, ok := m[e.Name]; ok {
			return r
		}
		return e
	case *IntLit, *BoolLit, *StrLit:
		return e
	case *Unary:
		return &Unary{e.Op, substitute(e.X, m)}
	case *Binary:
		return &Binary{e.Op, substitute(e.X, m), substitute(e.Y, m)}
	case *CallE:
		var a []Expr
		for _, x := range e.Args {
			a = append(a, substitute(x, m))
		}
		return &CallE{e.Fun, a}
	case *FieldE:
		return &FieldE{substitute(e.X, m), e.Name}
	case *IndexE:
		return &IndexE{substitute(e.X, m), substitute(e.I, m)}
	case *SliceE:
		var lo, hi Expr
		if e.Lo != nil {
			lo = substitute(e.Lo, m)
		}
		if e.Hi != nil {
			hi = substitute(e.Hi, m)
		}
		return &SliceE{substitute(e.X, m), lo, hi}
	case *Quant:
		m2 := map[string]Expr{}
		for k, v := range m {
			m2[k] = v
		}
		for _, v := range e.Vars {
			delete(m2, v.Name)
		}
		var trs [][]Expr
		for _, tr := range e.Triggers {
			var nt []Expr
			for _, x := range tr {
				nt = append(nt, substitute(x, m2))
			}
			trs = append(trs, nt)
		}
		return &Quant{e.Forall, e.Vars, substitute(e.Body, m2), trs}
	}
	panic(fmt.Sprintf("substitute: unknown node %T", e))
}
