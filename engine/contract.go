package main

// Contract files: comment-only Go files (//go:build verif) inside /repo, one per
// package, every contract line starting with "//@ ".  See DESIGN.md Appendix A.

import (
	"bufio"
	"fmt"
	"os"
	"path/filepath"
	"regexp"
	"sort"
	"strconv"
	"strings"
)

type Clause struct {
	Kind string
	Tags []string
	Text string
	E    Expr
	Name string // let name
	Ord  int    // 1-based ordinal among clauses of the same kind in the block
	File string
	Line int
}

type LoopSpec struct {
	N           int
	Invariants  []*Clause
	Decreases   *Clause
	Unreachable *Clause
}

type FuncSpec struct {
	Pkg         string
	Key         string // "(*list_).InsertValue", "Array", "Sequential.GetSize"
	IsIface     bool
	Assume      bool // trusted contract of an external / unverified function
	Implements  []string
	Uses        []string             // lemmas made available to this function's obligations
	Hints       map[int][]*Clause    // proof hints asserted (proved, then assumed) after the k-th call
	NamedHints  map[string][]*Clause // hints attached to "NAME#K" (K-th call of NAME), "-NAME#K" = before; resolved per function
	namedDone   bool
	OrphanHints map[string][]*Clause // named hints whose target call is not in the function's own body
	Trusts      map[string]string    // obligation suffix -> reason: runtime checks taken on trust (listed in the evidence)
	Props       []string
	Lets        []*Clause
	Requires    []*Clause
	Assumes     []*Clause // assumed at entry, not required of callers (heap well-formedness)
	Defines     []*Clause // definitional postconditions (assumed at call sites only)
	Ensures     []*Clause
	IEnsures    []*Clause
	XEnsures    []*Clause
	Modifies    []*Clause
	Loops       map[int]*LoopSpec
	Decreases   *Clause
	Flags       map[string]bool
	File        string
	Line        int
}

type TypeSpec struct {
	Pkg        string
	Name       string // "list_", pointer-ness is irrelevant
	Models     map[string]*Clause
	Invariants []*Clause
	Hypotheses []*Clause // assumed at method entry, never checked (stated in the trusted base)
	ConstInvs  []*Clause // construction invariants over immutable fields: proved for every object at the return of the function that allocates it, assumed of every receiver
	Flags      map[string]bool
	GuardedBy  map[string]string // field -> mutex field
	LockInv    []*Clause         // lock invariants of the guarded state
	Immutable  map[string]string // field -> pure spec function (declared) giving its value
	File       string
	Line       int
}

type Define struct {
	Name   string
	Params []string
	Body   Expr
	Text   string
}

type Axiom struct {
	Uses    []string // lemmas a lemma's own proof may use (nil: all earlier ones)
	HasUses bool
	Measure Expr // induction measure (lemmas proved by strong induction on a non-negative measure)
	Private bool // definitional axiom visible only inside lemma obligations
	Props   []string
	Name    string
	Text    string
	E       Expr
	Pkg     string
}

type Decl struct {
	Name string
	Args []string
	Res  string
}

type Contracts struct {
	GlobalNonNil map[string]bool   // package-level pointer variables initialised once with a non-nil value
	GlobalGuard  map[string]string // package-level variable -> package-level mutex that guards it
	Decls        map[string]*Decl
	Funcs        map[string]*FuncSpec // key: pkg + "." + Key
	Types        map[string]*TypeSpec // key: pkg + "." + Name
	Defines      map[string]*Define
	Models       map[string]string // model field name -> sort
	Axioms       []*Axiom
	Lemmas       []*Axiom
	Files        []string
	NLines       int
	Assumes      []string // human readable list of assumed contracts
}

var topKeywords = map[string]bool{"global": true, "declare": true, "type": true, "func": true, "iface": true, "define": true, "assume": true, "model": true, "axiom": true, "lemma": true}
var subKeywords = map[string]bool{"requires": true, "ensures": true, "xensures": true, "invariant": true, "unreachable": true, "decreases": true,
	"modifies": true, "let": true, "loop": true, "implements": true, "props": true, "pure": true, "nopanic": true, "inline": true,
	"view": true, "modelfield": true, "guarded_by": true, "trusted": true, "safe": true, "opaque": true, "noverify": true, "immutable": true,
	"trusts": true, "assumeat": true, "defines": true, "hint": true, "checks": true, "iensures": true, "lockinv": true, "assumes": true, "uses": true, "hypothesis": true, "constinv": true, "mayblock": true, "interfered": true, "syncwrites": true, "terminates": true, "nilok": true, "noinv": true, "noxinv": true, "noframe": true, "constructor": true}

var namedCall = regexp.MustCompile(`^call\s+([A-Za-z_][\w]*)#(\d+)$`)

var clauseHead = regexp.MustCompile(`^([a-z_]+)(\[[A-Za-z0-9, ]+\])?\s*(.*)$`)

func LoadContracts(files []string) (*Contracts, error) {
	c := &Contracts{GlobalNonNil: map[string]bool{}, GlobalGuard: map[string]string{}, Decls: map[string]*Decl{}, Funcs: map[string]*FuncSpec{}, Types: map[string]*TypeSpec{}, Defines: map[string]*Define{}, Models: map[string]string{}}
	for _, f := range files {
		if err := c.loadFile(f); err != nil {
			return nil, err
		}
	}
	return c, nil
}

type rawLine struct {
	text string
	line int
}

func (c *Contracts) loadFile(path string) error {
	fh, err := os.Open(path)
	if err != nil {
		return err
	}
	defer fh.Close()
	c.Files = append(c.Files, path)
	pkg := ""
	var lines []rawLine
	sc := bufio.NewScanner(fh)
	sc.Buffer(make([]byte, 1<<20), 1<<20)
	n := 0
	for sc.Scan() {
		n++
		t := sc.Text()
		tt := strings.TrimSpace(t)
		if strings.HasPrefix(tt, "package ") {
			pkg = strings.TrimSpace(strings.TrimPrefix(tt, "package "))
			continue
		}
		if strings.HasPrefix(tt, "//@") {
			body := strings.TrimPrefix(tt, "//@")
			// strip trailing comment "--"
			if i := strings.Index(body, " -- "); i >= 0 {
				body = body[:i]
			}
			body = strings.TrimSpace(body)
			if body != "" {
				lines = append(lines, rawLine{body, n})
				c.NLines++
			}
		}
	}
	if pkg == "" {
		pkg = filepath.Base(filepath.Dir(path))
	}
	// group into blocks
	type block struct {
		head rawLine
		subs []rawLine
	}
	var blocks []*block
	for _, l := range lines {
		w := firstWord(l.text)
		if topKeywords[w] {
			blocks = append(blocks, &block{head: l})
			continue
		}
		if len(blocks) == 0 {
			return fmt.Errorf("%s:%d: clause outside of a block", path, l.line)
		}
		b := blocks[len(blocks)-1]
		if subKeywords[w] {
			b.subs = append(b.subs, l)
		} else if len(b.subs) > 0 {
			b.subs[len(b.subs)-1].text += " " + l.text
		} else {
			b.head.text += " " + l.text
		}
	}
	for _, b := range blocks {
		w := firstWord(b.head.text)
		rest := strings.TrimSpace(strings.TrimPrefix(b.head.text, w))
		switch w {
		case "global":
			f := strings.Fields(rest)
			if len(f) == 3 && f[1] == "guarded_by" {
				c.GlobalGuard[pkg+"."+f[0]] = pkg + "." + f[2]
				break
			}
			if len(f) != 2 || f[1] != "nonnil" {
				return fmt.Errorf("%s:%d: global NAME nonnil | global NAME guarded_by MUTEX", path, b.head.line)
			}
			c.GlobalNonNil[pkg+"."+f[0]] = true
		case "declare":
			m := regexp.MustCompile(`^(\w+)\((.*)\)\s*(\w+)$`).FindStringSubmatch(rest)
			if m == nil {
				return fmt.Errorf("%s:%d: declare name(Sorts) Sort", path, b.head.line)
			}
			d := &Decl{Name: m[1], Res: m[3]}
			for _, a := range strings.Split(m[2], ",") {
				if a = strings.TrimSpace(a); a != "" {
					d.Args = append(d.Args, a)
				}
			}
			c.Decls[d.Name] = d
		case "model":
			f := strings.Fields(rest)
			if len(f) != 2 {
				return fmt.Errorf("%s:%d: model NAME SORT", path, b.head.line)
			}
			c.Models[f[0]] = f[1]
		case "define":
			i := strings.Index(rest, ":=")
			if i < 0 {
				return fmt.Errorf("%s:%d: define needs :=", path, b.head.line)
			}
			head := strings.TrimSpace(rest[:i])
			body := strings.TrimSpace(rest[i+2:])
			for _, s := range b.subs {
				body += " " + s.text
			}
			m := regexp.MustCompile(`^(\w+)\((.*)\)$`).FindStringSubmatch(head)
			if m == nil {
				return fmt.Errorf("%s:%d: bad define head %q", path, b.head.line, head)
			}
			var ps []string
			for _, p := range strings.Split(m[2], ",") {
				if p = strings.TrimSpace(p); p != "" {
					ps = append(ps, p)
				}
			}
			e, err := ParseExpr(body)
			if err != nil {
				return fmt.Errorf("%s:%d: %v", path, b.head.line, err)
			}
			c.Defines[m[1]] = &Define{m[1], ps, e, body}
		case "axiom", "lemma":
			var ltags []string
			if strings.HasPrefix(rest, "[") {
				j := strings.Index(rest, "]")
				for _, t := range strings.Split(rest[1:j], ",") {
					ltags = append(ltags, strings.TrimSpace(t))
				}
				rest = strings.TrimSpace(rest[j+1:])
			}
			f := strings.SplitN(rest, ":", 2)
			if len(f) != 2 {
				return fmt.Errorf("%s:%d: axiom NAME: expr", path, b.head.line)
			}
			var measure Expr
			if i := strings.Index(f[0], " measure "); i >= 0 {
				m, err := ParseExpr(f[0][i+len(" measure "):])
				if err != nil {
					return fmt.Errorf("%s:%d: measure: %v", path, b.head.line, err)
				}
				measure = m
				f[0] = f[0][:i]
			}
			var luses []string
			hasUses := false
			if i := strings.Index(f[0], " uses "); i >= 0 {
				hasUses = true
				for _, u := range strings.Split(f[0][i+len(" uses "):], ",") {
					if u = strings.TrimSpace(u); u != "" && u != "nothing" {
						luses = append(luses, u)
					}
				}
				f[0] = f[0][:i]
			}
			private := false
			for i, t := range ltags {
				if t == "private" {
					private = true
					ltags = append(ltags[:i], ltags[i+1:]...)
					break
				}
			}
			body := f[1]
			for _, s := range b.subs {
				body += " " + s.text
			}
			e, err := ParseExpr(body)
			if err != nil {
				return fmt.Errorf("%s:%d: %v", path, b.head.line, err)
			}
			a := &Axiom{luses, hasUses, measure, private, ltags, strings.TrimSpace(f[0]), strings.TrimSpace(body), e, pkg}
			if w == "axiom" {
				c.Axioms = append(c.Axioms, a)
			} else {
				c.Lemmas = append(c.Lemmas, a)
			}
		case "type":
			name := strings.TrimPrefix(strings.Fields(rest)[0], "*")
			ts := &TypeSpec{Pkg: pkg, Name: name, Models: map[string]*Clause{}, Flags: map[string]bool{}, GuardedBy: map[string]string{}, Immutable: map[string]string{}, File: path, Line: b.head.line}
			for _, s := range b.subs {
				cl, err := parseClause(s, path)
				if err != nil {
					return err
				}
				switch cl.Kind {
				case "view":
					cl.Name = "view"
					ts.Models["view"] = cl
				case "modelfield":
					// modelfield NAME expr
					f := strings.SplitN(cl.Text, " ", 2)
					if len(f) != 2 {
						return fmt.Errorf("%s:%d: modelfield NAME expr", path, s.line)
					}
					e, err := ParseExpr(f[1])
					if err != nil {
						return fmt.Errorf("%s:%d: %v", path, s.line, err)
					}
					cl.Name, cl.Text, cl.E = f[0], f[1], e
					ts.Models[f[0]] = cl
				case "invariant":
					cl.Ord = len(ts.Invariants) + 1
					ts.Invariants = append(ts.Invariants, cl)
				case "hypothesis":
					ts.Hypotheses = append(ts.Hypotheses, cl)
				case "constinv":
					cl.Ord = len(ts.ConstInvs) + 1
					ts.ConstInvs = append(ts.ConstInvs, cl)
				case "lockinv":
					// lockinv expr: holds of the guarded state whenever the guarding mutex is free (lock invariant)
					cl.Ord = len(ts.LockInv) + 1
					ts.LockInv = append(ts.LockInv, cl)
				case "immutable":
					// immutable FIELD FUNC
					f := strings.Fields(cl.Text)
					if len(f) != 2 {
						return fmt.Errorf("%s:%d: immutable FIELD FUNC", path, s.line)
					}
					ts.Immutable[f[0]] = f[1]
				case "guarded_by":
					// guarded_by mutex_: a, b
					f := strings.SplitN(cl.Text, ":", 2)
					if len(f) == 2 {
						for _, fld := range strings.Split(f[1], ",") {
							ts.GuardedBy[strings.TrimSpace(fld)] = strings.TrimSpace(f[0])
						}
					}
				default:
					ts.Flags[cl.Kind] = true
				}
			}
			c.Types[pkg+"."+name] = ts
		case "func", "iface", "assume":
			fs := &FuncSpec{Pkg: pkg, IsIface: w == "iface", Assume: w == "assume", Loops: map[int]*LoopSpec{}, Flags: map[string]bool{}, File: path, Line: b.head.line}
			if w == "assume" {
				rest = strings.TrimSpace(strings.TrimPrefix(rest, "func"))
			}
			// key is everything up to an optional signature "(" after the name
			fs.Key = parseFuncKey(rest)
			if fs.Key == "" {
				return fmt.Errorf("%s:%d: cannot parse function key %q", path, b.head.line, rest)
			}
			var curLoop *LoopSpec
			for _, s := range b.subs {
				cl, err := parseClause(s, path)
				if err != nil {
					return err
				}
				switch cl.Kind {
				case "loop":
					n, err := strconv.Atoi(strings.TrimSuffix(strings.TrimSpace(cl.Text), ":"))
					if err != nil {
						return fmt.Errorf("%s:%d: loop N", path, s.line)
					}
					curLoop = &LoopSpec{N: n}
					fs.Loops[n] = curLoop
				case "unreachable":
					// loop N: unreachable — under the function's precondition no path reaches this loop (proved)
					if curLoop == nil {
						return fmt.Errorf("%s:%d: unreachable outside loop", path, s.line)
					}
					curLoop.Unreachable = cl
				case "invariant":
					if curLoop == nil {
						return fmt.Errorf("%s:%d: invariant outside loop", path, s.line)
					}
					cl.Ord = len(curLoop.Invariants) + 1
					curLoop.Invariants = append(curLoop.Invariants, cl)
				case "decreases":
					if curLoop != nil {
						curLoop.Decreases = cl
					} else {
						// recursion variant: a lexicographic tuple "e1, e2, ..."
						e, err := ParseExpr("tuple(" + cl.Text + ")")
						if err != nil {
							return fmt.Errorf("%s:%d: %v", path, s.line, err)
						}
						cl.E = e
						fs.Decreases = cl
					}
				case "requires":
					cl.Ord = len(fs.Requires) + 1
					fs.Requires = append(fs.Requires, cl)
				case "assumes":
					fs.Assumes = append(fs.Assumes, cl)
				case "defines":
					// a postcondition that defines a specification function as "what this function returns":
					// assumed by callers, never an obligation (the function is deterministic in these arguments)
					fs.Defines = append(fs.Defines, cl)
				case "iensures":
					// iensures: a postcondition proved in the interference pass (guarded state is re-read under the
					// lock invariant after every Lock): holds whatever other threads do between this thread's steps
					cl.Ord = len(fs.IEnsures) + 1
					fs.IEnsures = append(fs.IEnsures, cl)
				case "ensures", "checks":
					// checks: a postcondition proved at every return of the body but not handed to callers
					// (it may mention local variables through local(x))
					cl.Ord = len(fs.Ensures) + 1
					fs.Ensures = append(fs.Ensures, cl)
				case "xensures":
					cl.Ord = len(fs.XEnsures) + 1
					fs.XEnsures = append(fs.XEnsures, cl)
				case "modifies":
					fs.Modifies = append(fs.Modifies, cl)
				case "let":
					fs.Lets = append(fs.Lets, cl)
				case "implements":
					for _, k := range strings.Split(cl.Text, ",") {
						fs.Implements = append(fs.Implements, strings.TrimSpace(k))
					}
				case "hint", "assumeat":
					// hint N: expr      (proved, then assumed)
					// assumeat N: expr  (assumed only: an explicit, listed assumption at a program point)
					i := strings.Index(cl.Text, ":")
					if i < 0 {
						return fmt.Errorf("%s:%d: hint N: expr", path, s.line)
					}
					head := strings.TrimSpace(cl.Text[:i])
					before := false
					if strings.HasPrefix(head, "before ") {
						before = true
						head = strings.TrimSpace(strings.TrimPrefix(head, "before "))
					}
					e, err := ParseExpr(cl.Text[i+1:])
					if err != nil {
						return fmt.Errorf("%s:%d: %v", path, s.line, err)
					}
					cl.E = e
					body := strings.TrimSpace(cl.Text[i+1:])
					if m := namedCall.FindStringSubmatch(head); m != nil {
						// hint [before] call NAME#K: the K-th call (in program order) of a function or method called
						// NAME — stable when unrelated calls are added or removed
						cl.Text = body
						key := m[1] + "#" + m[2]
						if before {
							key = "-" + key
						}
						if fs.NamedHints == nil {
							fs.NamedHints = map[string][]*Clause{}
						}
						fs.NamedHints[key] = append(fs.NamedHints[key], cl)
						break
					}
					n, err := strconv.Atoi(strings.TrimSpace(strings.TrimPrefix(head, "call")))
					if before {
						n = -n
					}
					if err != nil {
						return fmt.Errorf("%s:%d: hint N: expr", path, s.line)
					}
					cl.Text = body
					if fs.Hints == nil {
						fs.Hints = map[int][]*Clause{}
					}
					cl.Ord = len(fs.Hints[n]) + 1
					fs.Hints[n] = append(fs.Hints[n], cl)
				case "trusts":
					// trusts safe.assert@TypeAssert1: reason
					i := strings.Index(cl.Text, ":")
					if i < 0 {
						return fmt.Errorf("%s:%d: trusts OBLIGATION: reason", path, s.line)
					}
					if fs.Trusts == nil {
						fs.Trusts = map[string]string{}
					}
					fs.Trusts[strings.TrimSpace(cl.Text[:i])] = strings.TrimSpace(cl.Text[i+1:])
				case "uses":
					fs.Uses = append(fs.Uses, strings.Fields(strings.ReplaceAll(cl.Text, ",", " "))...)
				case "props":
					fs.Props = append(fs.Props, strings.Fields(strings.ReplaceAll(cl.Text, ",", " "))...)
				default:
					fs.Flags[cl.Kind] = true
				}
			}
			key := pkg + "." + fs.Key
			if w == "assume" && (strings.Contains(fs.Key, "/") || strings.Count(fs.Key, ".") >= 1 && !strings.HasPrefix(fs.Key, "(") ||
				strings.HasPrefix(fs.Key, "(") && strings.Contains(fs.Key[:strings.Index(fs.Key, ")")], ".")) {
				key = fs.Key // fully qualified external: "strings.Split", "(*sync.Mutex).Lock"
			}
			if w == "assume" {
				c.Assumes = append(c.Assumes, key)
			}
			if _, dup := c.Funcs[key]; dup {
				return fmt.Errorf("%s:%d: duplicate contract for %s", path, b.head.line, key)
			}
			c.Funcs[key] = fs
		}
	}
	sort.Strings(c.Assumes)
	return nil
}

func parseFuncKey(rest string) string {
	rest = strings.TrimSpace(rest)
	if strings.HasPrefix(rest, "(") {
		// (*T).M or (T).M
		i := strings.Index(rest, ")")
		if i < 0 {
			return ""
		}
		recv := rest[:i+1]
		tail := rest[i+1:]
		if !strings.HasPrefix(tail, ".") {
			return ""
		}
		m := regexp.MustCompile(`^\.([\w$]+)`).FindStringSubmatch(tail)
		if m == nil {
			return ""
		}
		return recv + "." + m[1]
	}
	m := regexp.MustCompile(`^([\w./$]+)`).FindStringSubmatch(rest)
	if m == nil {
		return ""
	}
	return m[1]
}

func firstWord(s string) string {
	for i, r := range s {
		if !(r >= 'a' && r <= 'z' || r == '_') {
			return s[:i]
		}
	}
	return s
}

func parseClause(l rawLine, path string) (*Clause, error) {
	m := clauseHead.FindStringSubmatch(l.text)
	if m == nil {
		return nil, fmt.Errorf("%s:%d: cannot parse clause %q", path, l.line, l.text)
	}
	cl := &Clause{Kind: m[1], Text: strings.TrimSpace(m[3]), File: path, Line: l.line}
	if m[2] != "" {
		for _, t := range strings.Split(strings.Trim(m[2], "[]"), ",") {
			cl.Tags = append(cl.Tags, strings.TrimSpace(t))
		}
	}
	switch cl.Kind {
	case "decreases":
		if strings.TrimSpace(cl.Text) == "*" {
			// termination not claimed
		} else if e, err := ParseExpr(cl.Text); err == nil {
			cl.E = e
		} else if _, err2 := ParseExpr("tuple(" + cl.Text + ")"); err2 != nil {
			return nil, fmt.Errorf("%s:%d: %v", path, l.line, err)
		}
	case "requires", "ensures", "checks", "iensures", "lockinv", "xensures", "invariant", "view", "hypothesis", "constinv", "assumes", "defines":
		e, err := ParseExpr(cl.Text)
		if err != nil {
			return nil, fmt.Errorf("%s:%d: %v", path, l.line, err)
		}
		cl.E = e
	case "let":
		i := strings.Index(cl.Text, ":=")
		if i < 0 {
			return nil, fmt.Errorf("%s:%d: let NAME := expr", path, l.line)
		}
		cl.Name = strings.TrimSpace(cl.Text[:i])
		e, err := ParseExpr(cl.Text[i+2:])
		if err != nil {
			return nil, fmt.Errorf("%s:%d: %v", path, l.line, err)
		}
		cl.E = e
	case "modifies":
		// comma separated location expressions; parsed as a call list
		e, err := ParseExpr("locs(" + cl.Text + ")")
		if err != nil {
			return nil, fmt.Errorf("%s:%d: %v", path, l.line, err)
		}
		cl.E = e
	}
	return cl, nil
}
