package main

import (
	"fmt"
	"go/types"
	"strings"
)

type Sort int

const (
	SInt Sort = iota
	SBool
	SU     // universal: references, interface values, type-parameter values, opaque structs
	SSeq   // abstract sequence of U
	SSlice // Go slice header (arr, off, len, cap)
	SF64
	SStr
	STuple
	SAddr
	SC128
)

func (s Sort) SMT() string {
	switch s {
	case SInt:
		return "Int"
	case SBool:
		return "Bool"
	case SU:
		return "U"
	case SSeq:
		return "SeqU"
	case SSlice:
		return "Slice"
	case SF64:
		return "(_ FloatingPoint 11 53)"
	case SStr:
		return "Str"
	case SC128:
		return "Cplx"
	}
	return "U"
}

func (s Sort) Short() string {
	switch s {
	case SInt:
		return "Int"
	case SBool:
		return "Bool"
	case SU:
		return "U"
	case SSeq:
		return "Seq"
	case SSlice:
		return "Slice"
	case SF64:
		return "F64"
	case SStr:
		return "Str"
	case SC128:
		return "Cplx"
	}
	return "U"
}

type Addr struct {
	Kind   string // field, elem, cell
	Region string
	Base   string // object term (field, cell) or array term (elem)
	Idx    string // elem index (absolute)
	Sort   Sort
	GT     types.Type
	Slice  string // elem: the slice term and the relative index, when known
	Rel    string
}

type Val struct {
	T   string
	S   Sort
	GT  types.Type
	A   *Addr
	Tup []Val
}

func sortOfType(t types.Type) Sort {
	if t == nil {
		return SU
	}
	switch u := t.Underlying().(type) {
	case *types.Basic:
		switch {
		case u.Info()&types.IsBoolean != 0:
			return SBool
		case u.Info()&types.IsInteger != 0:
			return SInt
		case u.Info()&types.IsFloat != 0:
			return SF64
		case u.Info()&types.IsComplex != 0:
			return SC128
		case u.Info()&types.IsString != 0:
			return SStr
		}
		return SU
	case *types.Slice:
		return SSlice
	case *types.Tuple:
		return STuple
	}
	return SU
}

// intRange returns the inclusive bounds of an integer type as decimal strings.
func intRange(t types.Type) (lo, hi string, ok bool) {
	b, isB := t.Underlying().(*types.Basic)
	if !isB || b.Info()&types.IsInteger == 0 {
		return "", "", false
	}
	switch b.Kind() {
	case types.Int, types.Int64, types.UntypedInt:
		return "(- 9223372036854775808)", "9223372036854775807", true
	case types.Uint, types.Uint64, types.Uintptr:
		return "0", "18446744073709551615", true
	case types.Int32, types.UntypedRune:
		return "(- 2147483648)", "2147483647", true
	case types.Uint32:
		return "0", "4294967295", true
	case types.Int16:
		return "(- 32768)", "32767", true
	case types.Uint16:
		return "0", "65535", true
	case types.Int8:
		return "(- 128)", "127", true
	case types.Uint8:
		return "0", "255", true
	}
	return "", "", false
}

func wrapFn(t types.Type) string {
	b, isB := t.Underlying().(*types.Basic)
	if !isB {
		return ""
	}
	switch b.Kind() {
	case types.Int, types.Int64, types.UntypedInt:
		return "wrap_i64"
	case types.Uint, types.Uint64, types.Uintptr:
		return "wrap_u64"
	case types.Int32, types.UntypedRune:
		return "wrap_i32"
	case types.Uint32:
		return "wrap_u32"
	case types.Int16:
		return "wrap_i16"
	case types.Uint16:
		return "wrap_u16"
	case types.Int8:
		return "wrap_i8"
	case types.Uint8:
		return "wrap_u8"
	}
	return ""
}

func smtInt(s string) string {
	if strings.HasPrefix(s, "-") {
		return "(- " + s[1:] + ")"
	}
	return s
}

func and(xs ...string) string {
	var ys []string
	for _, x := range xs {
		if x == "true" || x == "" {
			continue
		}
		ys = append(ys, x)
	}
	switch len(ys) {
	case 0:
		return "true"
	case 1:
		return ys[0]
	}
	return "(and " + strings.Join(ys, " ") + ")"
}

func or(xs ...string) string {
	var ys []string
	for _, x := range xs {
		if x == "false" || x == "" {
			continue
		}
		ys = append(ys, x)
	}
	switch len(ys) {
	case 0:
		return "false"
	case 1:
		return ys[0]
	}
	return "(or " + strings.Join(ys, " ") + ")"
}

func not(x string) string {
	if x == "true" {
		return "false"
	}
	if x == "false" {
		return "true"
	}
	if strings.HasPrefix(x, "(not ") && balanced(x[5:len(x)-1]) {
		return x[5 : len(x)-1]
	}
	return "(not " + x + ")"
}

func balanced(s string) bool {
	d := 0
	for _, c := range s {
		if c == '(' {
			d++
		} else if c == ')' {
			d--
			if d < 0 {
				return false
			}
		}
	}
	return d == 0
}

func implies(a, b string) string { return fmt.Sprintf("(=> %s %s)", a, b) }
func eq(a, b string) string      { return fmt.Sprintf("(= %s %s)", a, b) }
func sel(a, i string) string     { return fmt.Sprintf("(select %s %s)", a, i) }
func store(a, i, v string) string {
	return fmt.Sprintf("(store %s %s %s)", a, i, v)
}
func app(f string, args ...string) string {
	return "(" + f + " " + strings.Join(args, " ") + ")"
}

const preludeCore = `
(set-option :smt.mbqi false)
(set-option :smt.auto-config false)
(set-option :model.compact true)
(declare-sort U 0)
(declare-sort Str 0)
(declare-sort Cplx 0)
(declare-const nil U)
(define-fun MAXLEN () Int 2305843009213693952)
(define-fun MAXLEN2 () Int 4611686018427387904)
(declare-datatypes ((Slice 0)) (((mk_slice (sl_arr U) (sl_off Int) (sl_len Int) (sl_cap Int)))))
(define-fun nil_slice () Slice (mk_slice nil 0 0 0))
(define-fun wrap_i64 ((x Int)) Int (- (mod (+ x 9223372036854775808) 18446744073709551616) 9223372036854775808))
(define-fun wrap_u64 ((x Int)) Int (mod x 18446744073709551616))
(define-fun wrap_i32 ((x Int)) Int (- (mod (+ x 2147483648) 4294967296) 2147483648))
(define-fun wrap_u32 ((x Int)) Int (mod x 4294967296))
(define-fun wrap_i16 ((x Int)) Int (- (mod (+ x 32768) 65536) 32768))
(define-fun wrap_u16 ((x Int)) Int (mod x 65536))
(define-fun wrap_i8 ((x Int)) Int (- (mod (+ x 128) 256) 128))
(define-fun wrap_u8 ((x Int)) Int (mod x 256))
(define-fun go_quo ((x Int) (y Int)) Int (ite (>= x 0) (ite (> y 0) (div x y) (- (div x (- y)))) (ite (> y 0) (- (div (- x) y)) (div (- x) (- y)))))
(define-fun go_rem ((x Int) (y Int)) Int (- x (* y (go_quo x y))))
(declare-fun atime (U) Int)
(declare-fun dyntype (U) Int)
(declare-fun box_Int (Int) U)
(declare-fun unbox_Int (U) Int)
(declare-fun box_Bool (Bool) U)
(declare-fun unbox_Bool (U) Bool)
(declare-fun box_Slice (Slice) U)
(declare-fun unbox_Slice (U) Slice)
(declare-fun box_Str (Str) U)
(declare-fun unbox_Str (U) Str)
(declare-fun box_F64 ((_ FloatingPoint 11 53)) U)
(declare-fun unbox_F64 (U) (_ FloatingPoint 11 53))
(declare-fun box_Cplx (Cplx) U)
(declare-fun unbox_Cplx (U) Cplx)
(declare-fun str_lit (Int) Str)
(declare-fun str_id (Str) Int)
(declare-fun str_len (Str) Int)
(declare-fun str_concat (Str Str) Str)
(declare-fun str_lt (Str Str) Bool)
(declare-fun str_runes (Str) Int)
(declare-fun str_sub (Str Int Int) Str)
(declare-fun sl_ielem ((Array Int Int) Int Int) Int)
(assert (forall ((a (Array Int Int)) (o Int) (j Int)) (! (= (sl_ielem a o j) (select a (+ o j))) :pattern ((sl_ielem a o j)))))
(declare-fun implements (Int Int) Bool)
(declare-fun addr_of (Int U) U)
(declare-fun cplx_re (Cplx) (_ FloatingPoint 11 53))
(declare-fun cplx_im (Cplx) (_ FloatingPoint 11 53))
(declare-fun cplx_mk ((_ FloatingPoint 11 53) (_ FloatingPoint 11 53)) Cplx)
(define-fun cplx_goeq ((a Cplx) (b Cplx)) Bool (and (fp.eq (cplx_re a) (cplx_re b)) (fp.eq (cplx_im a) (cplx_im b))))
(declare-fun rankf (U U U) Int)
(declare-fun ceq (U U) Bool)
`

const preludeStr = `
(assert (forall ((a Str)) (! (not (str_lt a a)) :pattern ((str_lt a a)))))
(assert (forall ((a Str) (b Str)) (! (or (str_lt a b) (str_lt b a) (= a b)) :pattern ((str_lt a b)))))
(assert (forall ((a Str) (b Str)) (! (not (and (str_lt a b) (str_lt b a))) :pattern ((str_lt a b)))))
(assert (forall ((a Str) (b Str) (c Str)) (! (=> (and (str_lt a b) (str_lt b c)) (str_lt a c)) :pattern ((str_lt a b) (str_lt b c)))))
`

const preludeSeq = `
(declare-sort SeqU 0)
(declare-fun sq_len (SeqU) Int)
(declare-fun sq_at (SeqU Int) U)
(assert (forall ((s SeqU)) (! (>= (sq_len s) 0) :pattern ((sq_len s)))))
(declare-const sq_empty SeqU)
(assert (= (sq_len sq_empty) 0))
(declare-fun sq_zeros (Int U) SeqU)
(assert (forall ((n Int) (z U)) (! (=> (>= n 0) (= (sq_len (sq_zeros n z)) n)) :pattern ((sq_zeros n z)))))
(assert (forall ((n Int) (z U) (i Int)) (! (= (sq_at (sq_zeros n z) i) z) :pattern ((sq_at (sq_zeros n z) i)))))
(declare-fun sq_single (U) SeqU)
(assert (forall ((x U)) (! (and (= (sq_len (sq_single x)) 1) (= (sq_at (sq_single x) 0) x)) :pattern ((sq_single x)))))
(declare-fun sq_update (SeqU Int U) SeqU)
(assert (forall ((s SeqU) (i Int) (x U)) (! (= (sq_len (sq_update s i x)) (sq_len s)) :pattern ((sq_update s i x)))))
(assert (forall ((s SeqU) (i Int) (x U) (j Int)) (! (= (sq_at (sq_update s i x) j) (ite (= i j) x (sq_at s j))) :pattern ((sq_at (sq_update s i x) j)))))
(declare-fun sq_insert (SeqU Int U) SeqU)
(assert (forall ((s SeqU) (i Int) (x U)) (! (= (sq_len (sq_insert s i x)) (+ (sq_len s) 1)) :pattern ((sq_insert s i x)))))
(assert (forall ((s SeqU) (i Int) (x U) (j Int)) (! (= (sq_at (sq_insert s i x) j) (ite (< j i) (sq_at s j) (ite (= j i) x (sq_at s (- j 1))))) :pattern ((sq_at (sq_insert s i x) j)))))
(assert (forall ((s SeqU) (i Int) (x U)) (! (= (sq_at (sq_insert s i x) i) x) :pattern ((sq_insert s i x)))))
(assert (forall ((s SeqU) (i Int) (x U)) (! (= (sq_at (sq_update s i x) i) x) :pattern ((sq_update s i x)))))
(declare-fun sq_remove (SeqU Int) SeqU)
(assert (forall ((s SeqU) (i Int)) (! (=> (and (<= 0 i) (< i (sq_len s))) (= (sq_len (sq_remove s i)) (- (sq_len s) 1))) :pattern ((sq_remove s i)))))
(assert (forall ((s SeqU) (i Int) (j Int)) (! (= (sq_at (sq_remove s i) j) (ite (< j i) (sq_at s j) (sq_at s (+ j 1)))) :pattern ((sq_at (sq_remove s i) j)))))
(declare-fun sq_slice (SeqU Int Int) SeqU)
(assert (forall ((s SeqU) (a Int) (b Int)) (! (=> (and (<= 0 a) (<= a b) (<= b (sq_len s))) (= (sq_len (sq_slice s a b)) (- b a))) :pattern ((sq_slice s a b)))))
(assert (forall ((s SeqU) (a Int) (b Int) (j Int)) (! (= (sq_at (sq_slice s a b) j) (sq_at s (+ a j))) :pattern ((sq_at (sq_slice s a b) j)))))
(declare-fun sq_concat (SeqU SeqU) SeqU)
(assert (forall ((s SeqU) (t SeqU)) (! (= (sq_len (sq_concat s t)) (+ (sq_len s) (sq_len t))) :pattern ((sq_concat s t)))))
(assert (forall ((s SeqU) (t SeqU) (j Int)) (! (= (sq_at (sq_concat s t) j) (ite (< j (sq_len s)) (sq_at s j) (sq_at t (- j (sq_len s))))) :pattern ((sq_at (sq_concat s t) j)))))
(declare-fun sq_of ((Array Int U) Int Int) SeqU)
(assert (forall ((a (Array Int U)) (o Int) (n Int)) (! (=> (>= n 0) (= (sq_len (sq_of a o n)) n)) :pattern ((sq_of a o n)))))
(assert (forall ((a (Array Int U)) (o Int) (n Int) (j Int)) (! (= (sq_at (sq_of a o n) j) (select a (+ o j))) :pattern ((sq_at (sq_of a o n) j)))))
(declare-fun sq_rev (SeqU) SeqU)
(assert (forall ((s SeqU)) (! (= (sq_len (sq_rev s)) (sq_len s)) :pattern ((sq_rev s)))))
(assert (forall ((s SeqU) (j Int)) (! (= (sq_at (sq_rev s) j) (sq_at s (- (- (sq_len s) 1) j))) :pattern ((sq_at (sq_rev s) j)))))
(declare-fun sq_eq (SeqU SeqU) Bool)
(assert (forall ((s SeqU) (t SeqU)) (! (= (sq_eq s t) (and (= (sq_len s) (sq_len t)) (forall ((i Int)) (! (=> (and (<= 0 i) (< i (sq_len s))) (= (sq_at s i) (sq_at t i))) :pattern ((sq_at s i)) :pattern ((sq_at t i)))))) :pattern ((sq_eq s t)))))
(assert (forall ((s SeqU) (t SeqU)) (! (=> (sq_eq s t) (= s t)) :pattern ((sq_eq s t)))))
`

// reverse-direction sequence axioms: used only inside lemma obligations (they can
// cause matching loops in large contexts).
const preludeSeqRev = `
(assert (forall ((s SeqU) (i Int) (x U) (j Int)) (! (=> (and (<= 0 j) (< j (sq_len s))) (= (sq_at s j) (sq_at (sq_insert s i x) (ite (< j i) j (+ j 1))))) :pattern ((sq_insert s i x) (sq_at s j)))))
(assert (forall ((s SeqU) (i Int) (j Int)) (! (=> (and (<= 0 j) (< j (sq_len s)) (not (= j i))) (= (sq_at s j) (sq_at (sq_remove s i) (ite (< j i) j (- j 1))))) :pattern ((sq_remove s i) (sq_at s j)))))
(assert (forall ((s SeqU) (a Int) (b Int) (j Int)) (! (=> (and (<= a j) (< j b)) (= (sq_at s j) (sq_at (sq_slice s a b) (- j a)))) :pattern ((sq_slice s a b) (sq_at s j)))))
(assert (forall ((s SeqU) (t SeqU) (j Int)) (! (=> (and (<= 0 j) (< j (sq_len s))) (= (sq_at s j) (sq_at (sq_concat s t) j))) :pattern ((sq_concat s t) (sq_at s j)))))
(assert (forall ((s SeqU) (t SeqU) (j Int)) (! (=> (and (<= 0 j) (< j (sq_len t))) (= (sq_at t j) (sq_at (sq_concat s t) (+ j (sq_len s))))) :pattern ((sq_concat s t) (sq_at t j)))))
`

const preludeRank = `
(assert (forall ((c U) (a U) (b U)) (! (and (<= 0 (rankf c a b)) (<= (rankf c a b) 2)) :pattern ((rankf c a b)))))
`

// preludeFor assembles the prelude sections a query needs.
func preludeFor(body string, extra string) string {
	return preludeForKind(body, extra, "")
}

func preludeForKind(body string, extra string, kind string) string {
	var sb strings.Builder
	sb.WriteString(preludeCore)
	if strings.Contains(body, "str_lt") {
		sb.WriteString(preludeStr)
	}
	hasSeq := strings.Contains(body, "sq_") || strings.Contains(body, "SeqU") || strings.Contains(extra, "sq_") || strings.Contains(extra, "SeqU")
	if hasSeq {
		sb.WriteString(preludeSeq)
	}
	if strings.Contains(body, "rankf") || strings.Contains(extra, "rankf") {
		sb.WriteString(preludeRank)
	}
	if kind == "lemma" && hasSeq {
		sb.WriteString(preludeSeqRev)
	}
	return sb.String()
}
