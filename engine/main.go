package main

import (
	"encoding/json"
	"flag"
	"fmt"
	"go/types"
	"golang.org/x/tools/go/ssa"
	"os"
	"os/exec"
	"path/filepath"
	"regexp"
	"sort"
	"strconv"
	"strings"
	"time"
)

type KnownFinding struct {
	Property   string   `json:"property"`
	Obligation string   `json:"obligation"`
	Also       []string `json:"also,omitempty"` // further obligations that fail for the same reason
	Guard      string   `json:"guard,omitempty"`
	What       string   `json:"what"`
	Witness    string   `json:"witness_test,omitempty"` // path (relative to /verif) of an in-package Go test demonstrating the defect
	Package    string   `json:"package,omitempty"`      // repo package directory the witness test is injected into (e.g. v4/collection)
	Unprovable bool     `json:"unprovable,omitempty"`   // no guard restores the proof: the obligation is excused only while the witness reproduces
	Race       bool     `json:"race,omitempty"`         // the witness is a data race: run it under the race detector
	guardE     Expr
}

func loadKnown(path string) ([]*KnownFinding, []string, error) {
	data, err := os.ReadFile(path)
	if err != nil {
		if os.IsNotExist(err) {
			return nil, nil, nil
		}
		return nil, nil, err
	}
	var out []*KnownFinding
	var fixed []string
	for i, l := range strings.Split(string(data), "\n") {
		l = strings.TrimSpace(l)
		if l == "" || strings.HasPrefix(l, "#") {
			continue
		}
		if strings.HasPrefix(l, "fixed:") {
			fixed = append(fixed, l)
			continue
		}
		var k KnownFinding
		if err := json.Unmarshal([]byte(l), &k); err != nil {
			return nil, nil, fmt.Errorf("%s:%d: %v", path, i+1, err)
		}
		if k.Guard != "" {
			e, err := ParseExpr(k.Guard)
			if err != nil {
				return nil, nil, fmt.Errorf("%s:%d: guard: %v", path, i+1, err)
			}
			k.guardE = e
		}
		out = append(out, &k)
	}
	return out, fixed, nil
}

func (k *KnownFinding) covers(obl string) bool {
	if k.Obligation == obl {
		return true
	}
	for _, a := range k.Also {
		if a == obl {
			return true
		}
	}
	return false
}

// knownGuards returns the guards (region where the code is right) of the known
// findings recorded for this obligation, evaluated in the entry state.
func (fc *fnCtx) knownGuards(st *State, obl string) []string {
	var out []string
	for _, k := range fc.e.known {
		if !k.covers(obl) || k.guardE == nil || fc.top == nil {
			continue
		}
		func() {
			defer func() {
				if r := recover(); r != nil {
					if se, ok := r.(specError); ok {
						fc.e.warnings[fmt.Sprintf("known-finding guard for %s does not resolve: %s", obl, se.msg)] = true
						return
					}
					panic(r)
				}
			}()
			sc := fc.specCtxFor(st, fc.top)
			sc.heap = fc.top.entry
			sc.now = fc.top.entryT
			sc.useNames = false
			v := sc.eval(k.guardE)
			sc.want(v, SBool, k.guardE)
			out = append(out, v.T)
		}()
	}
	return out
}

type sample struct {
	Obligation string `json:"obligation"`
	Clause     string `json:"clause"`
	Kind       string `json:"kind"`
	Paths      int    `json:"paths"`
	Solver     string `json:"solver"`
	Ms         int64  `json:"ms"`
	Path       string `json:"path"`
}

func main() {
	repo := flag.String("repo", "/repo", "repository root")
	prop := flag.String("prop", "", "property id (C01..C20)")
	tier := flag.String("tier", "quick", "quick|thorough")
	verifDir := flag.String("verif", "/verif", "verification directory")
	only := flag.String("func", "", "verify only this function key (debugging)")
	dump := flag.String("dump", "", "directory to dump all SMT queries into")
	verbose := flag.Bool("v", false, "verbose")
	listOnly := flag.Bool("list", false, "list functions under contract and exit")
	updateExpected := flag.Bool("update-expected", false, "rewrite expected_obligations.json for this property")
	noWitness := flag.Bool("no-witness", false, "skip witness replays of known findings")
	noBounded := flag.Bool("no-bounded", false, "skip the bounded stand-in checks (functions outside the verifier's reach)")
	flag.Parse()
	if t := os.Getenv("VERIF_TIER"); t != "" && !isFlagSet("tier") {
		*tier = t
	}
	seed := 0
	if s := os.Getenv("VERIF_SEED"); s != "" {
		seed, _ = strconv.Atoi(s)
	}
	t0 := time.Now()
	e, err := NewEngine(*repo)
	if err != nil {
		fmt.Fprintln(os.Stderr, "engine:", err)
		os.Exit(2)
	}
	e.tier = *tier
	e.prop = *prop
	lvPath := filepath.Join(*verifDir, "engine", "loopvars.json")
	e.loopVars = map[string][]LoopVar{}
	e.curVars = map[string][]LoopVar{}
	if data, err := os.ReadFile(lvPath); err == nil {
		json.Unmarshal(data, &e.loopVars)
	}
	e.verbose = *verbose
	e.timeoutS = 10
	if *tier == "thorough" {
		e.timeoutS = 60
	}
	files := contractFiles(*repo)
	extra, _ := filepath.Glob(filepath.Join(*verifDir, "contracts", "*.contracts"))
	files = append(files, extra...)
	e.contracts, err = LoadContracts(files)
	if err != nil {
		fmt.Fprintln(os.Stderr, "contracts:", err)
		os.Exit(2)
	}
	known, fixed, err := loadKnown(filepath.Join(*verifDir, "known_findings.jsonl"))
	if err != nil {
		fmt.Fprintln(os.Stderr, "known findings:", err)
		os.Exit(2)
	}
	for _, k := range known {
		if *prop == "" || k.Property == *prop {
			e.known = append(e.known, k)
		}
	}
	_ = fixed
	// select functions
	var keys []string
	for k, fs := range e.contracts.Funcs {
		if fs.IsIface || fs.Assume || fs.Flags["noverify"] {
			continue
		}
		if *only != "" {
			if k == *only || shortKey(k) == *only {
				keys = append(keys, k)
			}
			continue
		}
		for _, p := range fs.Props {
			if p == *prop {
				keys = append(keys, k)
			}
		}
	}
	sort.Strings(keys)
	if *listOnly {
		for _, k := range keys {
			fmt.Println(k)
		}
		return
	}
	if len(keys) == 0 {
		fmt.Fprintf(os.Stderr, "no functions under contract for property %q\n", *prop)
		os.Exit(2)
	}
	for _, k := range keys {
		e.VerifyFunc(k)
	}
	if *only == "" {
		e.checkConstInvAllocators(*prop)
	}
	e.runLemmas(*prop)
	tGen := time.Since(t0)
	if *dump != "" {
		os.MkdirAll(*dump, 0o755)
		for _, o := range e.obls {
			for i, q := range o.Queries {
				os.WriteFile(filepath.Join(*dump, sanitize(o.Name)+fmt.Sprintf("__%d.smt2", i)), []byte("; "+o.Name+"\n; path: "+q.Path+"\n"+q.SMT), 0o644)
			}
		}
	}
	workers := 16
	if w, err := strconv.Atoi(os.Getenv("VCGEN_WORKERS")); err == nil && w > 0 {
		workers = w // several checks side by side (tools/trypatch.sh): fewer solver processes each
	}
	e.SolveAll(workers)
	// arithmetic lemmas the SMT solvers cannot do: checked by Lean 4 + Mathlib (thorough tier)
	leanNote := ""
	if files, _ := filepath.Glob(filepath.Join(*verifDir, "engine", "lemmas", *prop+".*.lean")); len(files) > 0 {
		if *tier == "thorough" {
			for _, f := range files {
				name := "lean." + strings.TrimSuffix(strings.TrimPrefix(filepath.Base(f), *prop+"."), ".lean")
				o := &Obligation{Name: name, Kind: "lean", Clause: "Lean 4 + Mathlib proof in " + f, Status: "proved"}
				cmd := exec.Command("lean", f)
				out, err := cmd.CombinedOutput()
				q := &Query{Result: "unsat", Solver: "lean-4.33.0", Out: trunc(string(out), 2000)}
				if err != nil || strings.Contains(string(out), "error") {
					o.Status = "failed"
					q.Result = "error"
				}
				o.Queries = append(o.Queries, q)
				e.obls = append(e.obls, o)
			}
			leanNote = fmt.Sprintf("%d Lean lemma file(s) checked", len(files))
		} else {
			leanNote = fmt.Sprintf("%d Lean lemma file(s) present, checked only in the thorough tier (the statements are axioms in the quick tier)", len(files))
		}
	}
	// filter obligations by property tags
	var mine []*Obligation
	for _, o := range e.obls {
		if len(o.Props) > 0 && *prop != "" {
			ok := false
			for _, p := range o.Props {
				if p == *prop {
					ok = true
				}
			}
			if !ok {
				continue
			}
		}
		if *prop == "C19" && len(o.Props) == 0 && !o.Vacuous {
			// C19 (instance independence) reports the footprint side of every function it covers: write
			// obligations, frames, lock discipline; the functional obligations of the same functions are
			// reported under the properties they belong to
			switch o.Kind {
			case "writes", "frame", "xframe", "guarded", "translates", "contract.resolves", "exists", "missing", "immutable":
			default:
				continue
			}
		}
		mine = append(mine, o)
	}
	// report
	nObl, nDis, nQueries := 0, 0, 0
	var solverMs int64
	bySolver := map[string]int{}
	recheck := map[string]int{} // thorough tier: answers of the second solver on proved queries
	var samples []sample
	var violations []*Obligation
	var broken []*Obligation
	smoke := 0
	// return statements: a refactoring may add a return that is unreachable under a restrictive precondition; what
	// must not happen is that a function ends up with FEWER reachable returns than it had when its obligations were
	// registered (that is the signature of contradictory assumptions on some path: the vacuity hole of DESIGN §7)
	rcPath := filepath.Join(*verifDir, "engine", "return_counts.json")
	regReturns := map[string]int{}
	if data, err := os.ReadFile(rcPath); err == nil {
		json.Unmarshal(data, &regReturns)
	}
	reachable := map[string]int{}
	var deadReturns []*Obligation
	for _, o := range mine {
		if o.Vacuous && strings.Contains(o.Name, ".smoke.return@") {
			if o.Status == "error" {
				deadReturns = append(deadReturns, o)
			} else {
				reachable[o.Func]++
			}
		}
	}
	if *updateExpected && *prop != "" {
		for f, n := range reachable {
			regReturns[f] = n
		}
		data, _ := json.MarshalIndent(regReturns, "", " ")
		os.WriteFile(rcPath, data, 0o644)
	}
	deadOK := map[*Obligation]bool{}
	for _, o := range deadReturns {
		if want, ok := regReturns[o.Func]; ok && reachable[o.Func] >= want && want > 0 {
			deadOK[o] = true
			e.warnings[fmt.Sprintf("%s: a return statement is unreachable under the precondition (%d reachable, %d registered)", o.Func, reachable[o.Func], want)] = true
		}
	}
	for _, o := range mine {
		if o.Vacuous {
			smoke++
			if o.Status == "error" && !deadOK[o] {
				broken = append(broken, o)
			}
			continue
		}
		nObl++
		for _, q := range o.Queries {
			nQueries++
			solverMs += q.Ms
			if q.Result == "unsat" {
				bySolver[q.Solver]++
				if q.Recheck != "" {
					recheck[q.Recheck]++
				}
			}
		}
		switch o.Status {
		case "proved":
			nDis++
			if len(samples) < 6 && len(o.Queries) > 0 && (o.Kind == "post" || o.Kind == "loop.preserve" || o.Kind == "xpost" || o.Kind == "inv") {
				q := o.Queries[0]
				samples = append(samples, sample{o.Name, o.Clause, o.Kind, len(o.Queries), q.Solver, q.Ms, q.Path})
			}
		case "failed":
			violations = append(violations, o)
		case "error":
			if strings.HasPrefix(o.Note, "solver error") || strings.HasPrefix(o.Note, "vacuity") {
				broken = append(broken, o)
			} else {
				violations = append(violations, o)
			}
		}
	}
	// expected obligations
	expPath := filepath.Join(*verifDir, "engine", "expected_obligations.json")
	expected := map[string][]string{}
	if data, err := os.ReadFile(expPath); err == nil {
		json.Unmarshal(data, &expected)
	}
	if *updateExpected && *prop != "" {
		var names []string
		for _, o := range mine {
			if !o.Vacuous && o.Kind != "translates" && o.Kind != "contract.resolves" && o.Kind != "exists" && o.Kind != "missing" && o.Kind != "frame" && o.Kind != "xframe" && o.Kind != "lean" {
				names = append(names, o.Name)
			}
		}
		sort.Strings(names)
		expected[*prop] = names
		data, _ := json.MarshalIndent(expected, "", " ")
		os.WriteFile(expPath, data, 0o644)
		for k, v := range e.curVars {
			if len(v) > 0 {
				e.loopVars[k] = v
			}
		}
		data, _ = json.MarshalIndent(e.loopVars, "", " ")
		os.WriteFile(lvPath, data, 0o644)
	} else if *only == "" {
		// names are compared modulo call / instruction ordinals, so that adding or removing a call in a
		// function does not rename its other obligations into "missing" ones
		have := map[string]bool{}
		for _, o := range mine {
			have[normName(o.Name)] = true
		}
		seen := map[string]bool{}
		for _, n := range expected[*prop] {
			nn := normName(n)
			if seen[nn] {
				continue
			}
			seen[nn] = true
			if !have[nn] {
				o := &Obligation{Name: n, Kind: "missing", Status: "error", Note: "obligation registered for this property was not generated on this tree (function or clause gone, or a path no longer reaches it)"}
				nObl++
				violations = append(violations, o)
			}
		}
	}
	// known findings
	replayDir := filepath.Join(*verifDir, "replays")
	if *repo != "/repo" {
		replayDir = filepath.Join(*repo, "_replays")
	}
	os.MkdirAll(replayDir, 0o755)
	exit := 0
	knownReported := map[*KnownFinding]bool{}
	var knownLines []string
	witnessCache := map[*KnownFinding]string{}
	witness := func(k *KnownFinding) string {
		if r, ok := witnessCache[k]; ok {
			return r
		}
		r := "skipped"
		if k.Witness != "" && !*noWitness {
			r = runWitness(*repo, *verifDir, k)
		}
		witnessCache[k] = r
		return r
	}
	var realViolations []*Obligation
	nExcused := 0
	// A recorded finding names its obligations exactly. When a refactoring moved the code (another call ordinal, a
	// helper frame) the listed name is no longer generated; the finding then also covers a failing obligation with
	// the same name modulo ordinals and helper frames — but only as many of them as listed names went missing, so a
	// second, different violation of the same kind in the same function is still reported.
	generated := map[string]bool{}
	for _, o := range mine {
		generated[o.Name] = true
	}
	normBudget := map[*KnownFinding]map[string]int{}
	for _, k := range e.known {
		if !k.Unprovable {
			continue
		}
		for _, nm := range append([]string{k.Obligation}, k.Also...) {
			if !generated[nm] {
				if normBudget[k] == nil {
					normBudget[k] = map[string]int{}
				}
				normBudget[k][normName(nm)]++
			}
		}
	}
	for _, o := range violations {
		excused := false
		for _, k := range e.known {
			covered := k.covers(o.Name)
			if !covered && k.Unprovable && normBudget[k][normName(o.Name)] > 0 {
				covered = true
				normBudget[k][normName(o.Name)]--
			}
			if covered && k.Unprovable {
				if w := witness(k); w == "present" || w == "skipped" {
					excused = true
					knownReported[k] = true
				}
			}
		}
		if !excused {
			realViolations = append(realViolations, o)
		} else {
			nObl-- // an obligation excused by a recorded, witnessed finding is reported separately, not as discharged
			nExcused++
		}
	}
	for _, k := range e.known {
		if knownReported[k] {
			continue
		}
		// guarded finding: obligation proved under the guard; the witness decides whether the defect is still there
		if w := witness(k); w == "present" || w == "skipped" {
			knownReported[k] = true
		}
	}
	for _, k := range e.known {
		if knownReported[k] {
			line := fmt.Sprintf("KNOWN-FINDING: property=%s %s [obligation %s]", k.Property, k.What, k.Obligation)
			knownLines = append(knownLines, line)
			fmt.Println(line)
		}
	}
	// A contract that no longer fits the shape of the code (a clause names a loop, call or variable that is gone; a
	// construct the engine cannot translate; a registered obligation that is no longer generated) strictly decides
	// nothing about that function. Measured on the two corpora (DESIGN.md §5.1): 36 of 94 property-breaking changes
	// reshape the code they break, against 10 of 54 behaviour-preserving refactorings; reporting such functions as
	// undecided would lose far more detections than it saves false alarms, so by default every failure is reported
	// as a VIOLATION (the structural ones say so in their name: contract.resolves, translates, missing). With
	// VERIF_UNDECIDED=1 they are reported as UNDECIDED instead (exit 2 when nothing else fails).
	structural := map[string]bool{}
	for _, o := range realViolations {
		if o.Kind == "contract.resolves" || o.Kind == "translates" || o.Kind == "exists" {
			structural[o.Func] = true
		}
	}
	funcOf := func(o *Obligation) string {
		if o.Func != "" {
			return o.Func
		}
		best := ""
		for _, k := range keys {
			if strings.HasPrefix(o.Name, k+".") && len(k) > len(best) {
				best = k
			}
		}
		return best
	}
	var decided, undecided []*Obligation
	for _, o := range realViolations {
		f := funcOf(o)
		if os.Getenv("VERIF_UNDECIDED") != "" && (structural[f] || o.Kind == "missing") {
			undecided = append(undecided, o)
		} else {
			decided = append(decided, o)
		}
	}
	for _, o := range decided {
		path := filepath.Join(replayDir, fmt.Sprintf("%s-%s.json", *prop, sanitize(o.Name)))
		writeReplay(path, *prop, o)
		fmt.Printf("VIOLATION property=%s replay=%s obligation=%s no-failing-input-found\n", *prop, path, o.Name)
		exit = 1
	}
	// bounded stand-ins: functions whose specification no contract within reach can express (string classification
	// through strings.HasPrefix, ...) are exercised on the real code over a stated finite domain. Labelled bounded in
	// the evidence, never counted among the discharged obligations; a failure is a violation WITH a failing input.
	var boundedNotes []map[string]interface{}
	if *only == "" && !*noBounded {
		files, _ := filepath.Glob(filepath.Join(*verifDir, "bounded", "*_test.go"))
		sort.Strings(files)
		for _, f := range files {
			hdr := boundedHeader(f)
			mine := false
			for _, p := range strings.Fields(hdr["props"]) {
				if p == *prop {
					mine = true
				}
			}
			if !mine {
				continue
			}
			t0b := time.Now()
			status, detail := runBounded(*repo, f, hdr["package"], *tier)
			note := map[string]interface{}{"check": filepath.Base(f), "function": hdr["function"], "bound": hdr["bound"], "bound_thorough": hdr["bound-thorough"], "tier": *tier, "level": "bounded (not counted as proved)", "result": status, "detail": trunc(detail, 600), "seconds": time.Since(t0b).Seconds()}
			boundedNotes = append(boundedNotes, note)
			if status == "fail" {
				name := "bounded." + strings.TrimSuffix(filepath.Base(f), "_test.go")
				path := filepath.Join(replayDir, fmt.Sprintf("%s-%s.json", *prop, sanitize(name)))
				rep := map[string]interface{}{"property": *prop, "obligation": name, "kind": "bounded", "function": hdr["function"], "bound": hdr["bound"],
					"failing_input": detail, "how_to_replay": fmt.Sprintf("go test -overlay (inject %s into %s) -run TestVerifBounded", f, hdr["package"])}
				data, _ := json.MarshalIndent(rep, "", " ")
				os.WriteFile(path, data, 0o644)
				fmt.Printf("VIOLATION property=%s replay=%s obligation=%s failing-input-replayed-on-the-real-code\n", *prop, path, name)
				exit = 1
			} else if status != "ok" {
				fmt.Fprintf(os.Stderr, "BROKEN-CHECK bounded check %s did not run: %s\n", f, trunc(detail, 500))
				if exit == 0 {
					exit = 2
				}
			}
		}
	}
	seenU := map[string]bool{}
	for _, o := range undecided {
		f := funcOf(o)
		if seenU[f] {
			continue
		}
		seenU[f] = true
		why := o.Note
		for _, x := range undecided {
			if funcOf(x) == f && (x.Kind == "contract.resolves" || x.Kind == "translates" || x.Kind == "exists") {
				why = x.Note
				break
			}
		}
		var names []string
		for _, x := range undecided {
			if funcOf(x) == f {
				names = append(names, strings.TrimPrefix(x.Name, f+"."))
			}
		}
		fmt.Printf("UNDECIDED property=%s function=%s: the contract no longer fits the code (%s) [%s]\n", *prop, f, trunc(strings.TrimSpace(why), 300), trunc(strings.Join(names, ", "), 300))
		if exit == 0 {
			exit = 2
		}
	}
	realViolations = decided
	for _, o := range broken {
		fmt.Fprintf(os.Stderr, "BROKEN-CHECK %s: %s\n", o.Name, o.Note)
		if exit == 0 {
			exit = 2
		}
	}
	if *verbose || exit != 0 {
		for _, o := range mine {
			if o.Status != "proved" && !o.Vacuous {
				fmt.Fprintf(os.Stderr, "  %-8s %s  [%s] %s\n", o.Status, o.Name, o.Clause, o.Note)
				for _, q := range o.Queries {
					if q.Result != "unsat" {
						fmt.Fprintf(os.Stderr, "      %s by %s in %dms on path %s\n", q.Result, q.Solver, q.Ms, q.Path)
					}
				}
			}
		}
	}
	var warn []string
	for w := range e.warnings {
		warn = append(warn, w)
	}
	sort.Strings(warn)
	for _, w := range warn {
		fmt.Fprintln(os.Stderr, "warning:", w)
	}
	// evidence
	if *prop != "" && *only == "" {
		var ext []string
		for x := range e.externals {
			ext = append(ext, x)
		}
		sort.Strings(ext)
		trusted := []string{
			"go/packages + go/ssa (x/tools v0.29.0) as the front end; VC generator /verif/engine (new, unaudited; guarded by smoke checks and the must-fail corpus)",
			"SMT solvers z3 5.1.0, z3 4.8.12, cvc5 1.0 (first unsat wins; thorough tier re-checks)",
			"integers: mathematical Int with exact wrap-around (mod 2^n) at every + - * and conversion",
			"allocation never fails; make([]T,n) panics iff n<0 or n>2^62; every existing slice/sequence has length <= 2^61",
			"distinct collection objects never share representation objects (ownership; established by the freshness postconditions of the constructors)",
		}
		// contracts applied at call sites of this run that no verified body stands behind
		implemented := map[string]bool{}
		for k, fs := range e.contracts.Funcs {
			if fs.IsIface || fs.Assume || fs.Flags["noverify"] {
				continue
			}
			pkg := k[:strings.Index(k, ".")]
			for _, ik := range fs.Implements {
				implemented[pkg+"."+ik] = true
				implemented[ik] = true
			}
		}
		var usedKeys []string
		for k := range e.usedSpecs {
			usedKeys = append(usedKeys, k)
		}
		sort.Strings(usedKeys)
		for _, k := range usedKeys {
			fs := e.contracts.Funcs[k]
			if fs == nil {
				continue
			}
			switch {
			case fs.Assume:
				trusted = append(trusted, "assumed contract applied at a call site of this run: "+k)
			case fs.IsIface && fs.Flags["trusted"]:
				trusted = append(trusted, "interface contract applied on trust (declared trusted: the implementations are not verified against it): "+k)
			case fs.IsIface && !implemented[k] && !implemented[shortKey(k)]:
				trusted = append(trusted, "interface contract applied at a call site, no implementation in the repository is verified against it: "+k)
			case fs.Flags["noverify"]:
				trusted = append(trusted, "function contract applied but its body is not verified (noverify): "+k)
			}
		}
		// type-level hypotheses (assumed of every receiver, never proved) of the types whose methods were verified
		seenT := map[string]bool{}
		for _, k := range keys {
			if fn := e.funcs[k]; fn != nil {
				if ts, _ := e.typeSpecOf(fn); ts != nil && !seenT[ts.Pkg+"."+ts.Name] {
					seenT[ts.Pkg+"."+ts.Name] = true
					for _, h := range ts.Hypotheses {
						trusted = append(trusted, "type hypothesis (assumed of every receiver, never proved): "+ts.Pkg+"."+ts.Name+": "+h.Text)
					}
					for _, h := range ts.ConstInvs {
						trusted = append(trusted, "construction invariant (assumed of every receiver; proved at every allocation of the type under its property tag "+strings.Join(h.Tags, ",")+"): "+ts.Pkg+"."+ts.Name+": "+h.Text)
					}
				}
			}
		}
		var gnn []string
		for g := range e.contracts.GlobalNonNil {
			gnn = append(gnn, g)
		}
		sort.Strings(gnn)
		if len(gnn) > 0 {
			trusted = append(trusted, "package-level variables assumed initialised non-nil and never reassigned: "+strings.Join(gnn, ", "))
		}
		for _, x := range ext {
			trusted = append(trusted, "external (result unconstrained, heap untouched): "+x)
		}
		for _, a := range e.contracts.Axioms {
			trusted = append(trusted, "axiom: "+a.Name)
		}
		trusted = append(trusted, warn...)
		var fnames []string
		fnames = append(fnames, keys...)
		cov := map[string]interface{}{
			"obligations":               nObl,
			"discharged":                nDis,
			"queries":                   nQueries,
			"checker_cmd":               fmt.Sprintf("/verif/check %s --tier %s", *prop, *tier),
			"trusted_base":              trusted,
			"functions_under_contract":  fnames,
			"samples":                   samples,
			"solver_seconds":            float64(solverMs) / 1000.0,
			"by_solver":                 bySolver,
			"second_solver_recheck":     recheck,
			"smoke_checks":              smoke,
			"known_findings":            knownLines,
			"bounded_stand_ins":         boundedNotes,
			"generation_seconds":        tGen.Seconds(),
			"contract_lines":            e.contracts.NLines,
			"lean":                      leanNote,
			"excused_by_known_findings": nExcused,
		}
		if extraPath := filepath.Join(*verifDir, "notes", *prop+".json"); fileExists(extraPath) {
			var extraM map[string]interface{}
			data, _ := os.ReadFile(extraPath)
			if json.Unmarshal(data, &extraM) == nil {
				for k, v := range extraM {
					cov[k] = v
				}
			}
		}
		ev := map[string]interface{}{
			"property_id": *prop,
			"tier":        *tier,
			"seed":        seed,
			"level":       "proof",
			"coverage":    cov,
			"assumptions": trusted,
			"wall_s":      time.Since(t0).Seconds(),
			"violations":  len(realViolations),
		}
		// trial runs on a scratch copy of the repository (tools/trypatch.sh) must not overwrite the evidence
		// of the real tree or its replay files
		if *repo == "/repo" {
			os.MkdirAll(filepath.Join(*verifDir, "evidence"), 0o755)
			data, _ := json.MarshalIndent(ev, "", " ")
			os.WriteFile(filepath.Join(*verifDir, "evidence", *prop+".json"), data, 0o644)
		}
	}
	fmt.Fprintf(os.Stderr, "%s: %d functions, %d obligations, %d discharged, %d queries, gen %.1fs, total %.1fs\n", *prop, len(keys), nObl, nDis, nQueries, tGen.Seconds(), time.Since(t0).Seconds())
	os.Exit(exit)
}

func fileExists(p string) bool { _, err := os.Stat(p); return err == nil }

func isFlagSet(name string) bool {
	found := false
	flag.Visit(func(f *flag.Flag) {
		if f.Name == name {
			found = true
		}
	})
	return found
}

func writeReplay(path, prop string, o *Obligation) {
	type qrec struct {
		Path   string `json:"path"`
		Result string `json:"result"`
		Solver string `json:"solver"`
		Ms     int64  `json:"ms"`
		Output string `json:"solver_output"`
		Model  string `json:"candidate_model,omitempty"`
		SMT    string `json:"smt,omitempty"`
	}
	var qs []qrec
	for _, q := range o.Queries {
		if q.Result == "unsat" {
			continue
		}
		r := qrec{Path: q.Path, Result: q.Result, Solver: q.Solver, Ms: q.Ms, Output: trunc(q.Out, 4000)}
		if len(qs) < 2 {
			r.Model = modelFor(q)
			r.SMT = q.SMT
		}
		qs = append(qs, r)
	}
	rec := map[string]interface{}{
		"property":         prop,
		"obligation":       o.Name,
		"kind":             o.Kind,
		"clause":           o.Clause,
		"contract_loc":     o.Loc,
		"status":           o.Status,
		"note":             o.Note,
		"failing_queries":  qs,
		"failing_input":    nil,
		"how_to_reproduce": "cd /verif && ./check " + prop + " --tier quick   (the obligation named above is re-generated from /repo's working tree and handed to the solvers)",
	}
	data, _ := json.MarshalIndent(rec, "", " ")
	os.WriteFile(path, data, 0o644)
}

func trunc(s string, n int) string {
	if len(s) > n {
		return s[:n] + "..."
	}
	return s
}

// runWitness injects the witness test of a known finding into the real package
// (go test -overlay, nothing is written into /repo) and reports whether the defect is present.
func runWitness(repo, verifDir string, k *KnownFinding) string {
	src := filepath.Join(verifDir, k.Witness)
	if !fileExists(src) {
		return "skipped"
	}
	pkgDir := filepath.Join(repo, k.Package)
	work, err := os.MkdirTemp("", "vwit")
	if err != nil {
		return "skipped"
	}
	defer os.RemoveAll(work)
	target := filepath.Join(pkgDir, "zz_verif_witness_test.go")
	ov := map[string]interface{}{"Replace": map[string]string{target: src}}
	data, _ := json.Marshal(ov)
	ovPath := filepath.Join(work, "overlay.json")
	os.WriteFile(ovPath, data, 0o644)
	name := strings.TrimSuffix(filepath.Base(k.Witness), ".go")
	_ = name
	args := []string{"test", "-overlay", ovPath, "-vet=off", "-count=1", "-timeout", "60s", "-run", "TestVerifWitness", "-v", "."}
	if k.Race {
		args = append([]string{"test", "-race"}, args[1:]...)
	}
	cmd := exec.Command("go", args...)
	cmd.Dir = pkgDir
	cmd.Env = append(os.Environ(), "GOFLAGS=-mod=mod", "GOPROXY=off", "GOSUMDB=off", "GOTOOLCHAIN=local")
	out, _ := cmd.CombinedOutput()
	s := string(out)
	switch {
	case k.Race && strings.Contains(s, "WARNING: DATA RACE"):
		return "present"
	case strings.Contains(s, "WITNESS-DEFECT-PRESENT"):
		return "present"
	case strings.Contains(s, "WITNESS-DEFECT-ABSENT"):
		return "absent"
	}
	if strings.Contains(s, "panic: test timed out") {
		return "present" // hang witnesses
	}
	if strings.Contains(s, "stack overflow") || strings.Contains(s, "goroutine stack exceeds") {
		return "present" // unbounded recursion witnesses: the process dies with a fatal stack overflow
	}
	fmt.Fprintf(os.Stderr, "witness %s: inconclusive output:\n%s\n", k.Witness, trunc(s, 2000))
	return "skipped"
}

var ordRe = regexp.MustCompile(`(call|Call|IndexAddr|FieldAddr|Slice|TypeAssert|UnOp|BinOp|MakeSlice|Lookup|MapUpdate|Store|defer)\d+`)

// normName: obligation names modulo instruction ordinals; a call and the same call deferred are the same site
var siteRe = regexp.MustCompile(`^(call|Call|IndexAddr|FieldAddr|Slice|TypeAssert|UnOp|BinOp|MakeSlice|Lookup|MapUpdate|Store|defer|Go|Send|Range|Next|before|unlock|b\d)`)

func normName(n string) string {
	n = ordRe.ReplaceAllString(n, "$1*")
	n = strings.ReplaceAll(n, "@defer*", "@call*")
	// write-footprint and lock-discipline obligations are identified by function and region, not by the site
	// (a store may move into a helper or a closure without changing what the function writes)
	// an obligation generated while a contract-less helper is executed in place carries "@helper" at the end:
	// the same obligation whether the code sits in the function itself or in a helper it calls
	if i := strings.LastIndex(n, "@"); i >= 0 {
		if !siteRe.MatchString(n[i+1:]) {
			n = n[:i]
		}
	}
	for _, kind := range []string{".writes.", ".guarded.", ".nolock."} {
		if i := strings.Index(n, kind); i >= 0 {
			if j := strings.Index(n[i:], "@"); j >= 0 {
				n = n[:i+j]
			}
		}
	}
	return n
}

// checkConstInvAllocators: a construction invariant (constinv) is assumed of every receiver of its type. That is sound
// when (1) it mentions only immutable fields of the object and (2) every function of the repository that allocates the
// type is verified in this run (its constinv obligations are generated at its returns). Both are checked here,
// syntactically, on the current source; a violation is a failed obligation.
func (e *Engine) checkConstInvAllocators(prop string) {
	fieldRe := regexp.MustCompile(`this\.([A-Za-z_][A-Za-z_0-9]*)`)
	var tkeys []string
	for k := range e.contracts.Types {
		tkeys = append(tkeys, k)
	}
	sort.Strings(tkeys)
	for _, tk := range tkeys {
		ts := e.contracts.Types[tk]
		named := e.typeByKey[tk]
		var mine []*Clause
		for _, c := range ts.ConstInvs {
			if len(c.Tags) == 0 || prop == "" {
				mine = append(mine, c)
				continue
			}
			for _, t := range c.Tags {
				if t == prop {
					mine = append(mine, c)
				}
			}
		}
		if len(mine) == 0 {
			continue
		}
		fail := func(name, note string, c *Clause) {
			o := &Obligation{Name: name, Func: tk, Kind: "exists", Status: "error", Note: note, Loc: fmt.Sprintf("%s:%d", ts.File, ts.Line)}
			if c != nil {
				o.Clause = c.Text
			}
			e.obls = append(e.obls, o)
			e.oblByName[o.Name] = o
		}
		if named == nil {
			fail(tk+".constinv.type", "type with construction invariants not found in the repository", nil)
			continue
		}
		for _, c := range mine {
			for _, m := range fieldRe.FindAllStringSubmatch(c.Text, -1) {
				if ts.Immutable[m[1]] == "" {
					fail(fmt.Sprintf("%s.constinv%d.immutable.%s", tk, c.Ord, m[1]), "a construction invariant may only mention immutable fields", c)
				}
			}
		}
		var fkeys []string
		for k := range e.funcs {
			fkeys = append(fkeys, k)
		}
		sort.Strings(fkeys)
		for _, fk := range fkeys {
			fn := e.funcs[fk]
			allocs := false
			for _, b := range fn.Blocks {
				for _, ins := range b.Instrs {
					if a, ok := ins.(*ssa.Alloc); ok {
						if n, ok := derefNamed(a.Type()); ok && n.Origin() == named.Origin() {
							if _, isStruct := a.Type().(*types.Pointer).Elem().Underlying().(*types.Struct); isStruct {
								allocs = true
							}
						}
					}
				}
			}
			if !allocs {
				continue
			}
			owner := fk
			if i := strings.Index(owner, "$"); i >= 0 {
				owner = owner[:i]
			}
			fs := e.contracts.Funcs[owner]
			ok := fs != nil && !fs.IsIface && !fs.Assume && !fs.Flags["noverify"]
			if ok && prop != "" {
				ok = false
				for _, p := range fs.Props {
					if p == prop {
						ok = true
					}
				}
			}
			if !ok {
				fail(fmt.Sprintf("%s.constinv.allocator.%s", tk, shortKey(fk)), "a function that allocates a type with construction invariants must be verified for this property (its constinv obligations establish them)", mine[0])
			}
		}
	}
}

// boundedHeader reads the "// key: value" lines at the top of a bounded stand-in test.
func boundedHeader(path string) map[string]string {
	h := map[string]string{}
	data, err := os.ReadFile(path)
	if err != nil {
		return h
	}
	for _, l := range strings.Split(string(data), "\n") {
		if !strings.HasPrefix(l, "//") {
			break
		}
		l = strings.TrimSpace(strings.TrimPrefix(l, "//"))
		if i := strings.Index(l, ":"); i > 0 {
			h[strings.TrimSpace(l[:i])] = strings.TrimSpace(l[i+1:])
		}
	}
	return h
}

// runBounded injects a bounded stand-in test into the real package (go test -overlay) and runs it.
func runBounded(repo, src, pkg, tier string) (status, detail string) {
	pkgDir := filepath.Join(repo, pkg)
	work, err := os.MkdirTemp("", "vbnd")
	if err != nil {
		return "skipped", err.Error()
	}
	defer os.RemoveAll(work)
	target := filepath.Join(pkgDir, "zz_verif_bounded_test.go")
	data, _ := json.Marshal(map[string]interface{}{"Replace": map[string]string{target: src}})
	ovPath := filepath.Join(work, "overlay.json")
	os.WriteFile(ovPath, data, 0o644)
	limit := "120s"
	if tier == "thorough" {
		limit = "600s"
	}
	cmd := exec.Command("go", "test", "-overlay", ovPath, "-vet=off", "-count=1", "-timeout", limit, "-run", "TestVerifBounded", "-v", ".")
	cmd.Dir = pkgDir
	cmd.Env = append(os.Environ(), "GOFLAGS=-mod=mod", "GOPROXY=off", "GOSUMDB=off", "GOTOOLCHAIN=local", "VERIF_BOUNDED_TIER="+tier)
	out, _ := cmd.CombinedOutput()
	s := string(out)
	var fails []string
	for _, l := range strings.Split(s, "\n") {
		if i := strings.Index(l, "BOUNDED-FAIL"); i >= 0 {
			fails = append(fails, strings.TrimSpace(l[i:]))
		}
	}
	if len(fails) > 0 {
		return "fail", strings.Join(fails, "\n")
	}
	if strings.Contains(s, "panic: test timed out") {
		// a call of the real code that does not return is a failure of the stand-in, not a broken check
		return "fail", "BOUNDED-FAIL the run of the real code did not terminate within " + limit + " (go test -timeout): a call hangs on one of the enumerated inputs\n" + trunc(s, 1500)
	}
	for _, l := range strings.Split(s, "\n") {
		if i := strings.Index(l, "BOUNDED-OK"); i >= 0 {
			return "ok", strings.TrimSpace(l[i:])
		}
	}
	return "skipped", s
}
