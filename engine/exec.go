package main

// Symbolic execution of go/ssa function bodies: one path at a time between cut
// points (loop headers), emitting one SMT query per obligation per path.

import (
	"fmt"
	"go/constant"
	"go/token"
	"go/types"
	"os"
	"sort"
	"strings"

	"golang.org/x/tools/go/ssa"
)

type frame struct {
	fn      *ssa.Function
	key     string
	ret     func(st *State, res []Val)
	pan     func(st *State, why string)
	parent  *frame
	depth   int
	loops   map[*ssa.BasicBlock]*loopInfo
	spec    *FuncSpec
	callOrd map[ssa.Instruction]int
	prefix  string // obligation name prefix
	defers  []*ssa.Defer
	entry   map[string]string // heap at frame entry
	entryT  string
	this    *Val
	params  map[string]Val
	lets    map[string]Val
	site    string // call site (in the parent frame) through which this in-place execution was entered
}

type translateError struct{ msg string }

func (fc *fnCtx) unsupported(format string, args ...interface{}) {
	panic(translateError{fmt.Sprintf(format, args...)})
}

const maxPaths = 4000
const maxInlineDepth = 6

var dbgSeen = map[string]int{}

// helperCalls: for a call of a contract-less function of the repository, the callee names that function calls exactly
// once in its own body (one level).
func (fc *fnCtx) helperCalls(ci ssa.CallInstruction) []string {
	callee := ci.Common().StaticCallee()
	if callee == nil || !fc.e.inRepo(callee) || fc.e.contracts.Funcs[fc.e.keyOf(callee)] != nil {
		return nil
	}
	fn := originOf(callee)
	cnt := map[string]int{}
	var order []string
	for _, b := range fn.Blocks {
		for _, ins := range b.Instrs {
			if c, ok := ins.(ssa.CallInstruction); ok {
				if n := calleeName(c.Common()); n != "" {
					if cnt[n] == 0 {
						order = append(order, n)
					}
					cnt[n]++
				}
			}
		}
	}
	var out []string
	for _, n := range order {
		if cnt[n] == 1 {
			out = append(out, n)
		}
	}
	return out
}

// movedHints: hints of the contract under verification whose target `call NAME#K` is no longer in the function's own
// body, when this call (in a contract-less helper executed in place) is the helper's only call of NAME and the helper
// was entered through the K-th call of that helper in the function: the statement carrying the hint moved into a helper.
func (fc *fnCtx) movedHints(fr *frame, call *ssa.Call) (before, after []*Clause) {
	name := calleeName(call.Common())
	if name == "" {
		return
	}
	n := 0
	for _, b := range fr.fn.Blocks {
		for _, ins := range b.Instrs {
			if ci, ok := ins.(ssa.CallInstruction); ok && calleeName(ci.Common()) == name {
				n++
			}
		}
	}
	if n != 1 {
		return
	}
	f := fr
	for f.parent != nil && f.parent != fc.top {
		f = f.parent
	}
	if f.parent != fc.top {
		return
	}
	rank, k := 0, 0
	for _, b := range fc.top.fn.Blocks {
		for _, ins := range b.Instrs {
			c, ok := ins.(ssa.CallInstruction)
			if !ok {
				continue
			}
			for _, inner := range fc.helperCalls(c) {
				if inner == name {
					k++
					if cc, isCall := c.(*ssa.Call); isCall && fmt.Sprintf("call%d", fc.top.callOrd[cc]) == f.site {
						rank = k
					}
				}
			}
			if calleeName(c.Common()) == name {
				k++
			}
		}
	}
	if rank == 0 {
		return
	}
	if fc.usedOrphanHints == nil {
		fc.usedOrphanHints = map[string]bool{}
	}
	kb, ka := fmt.Sprintf("-%s#%d", name, rank), fmt.Sprintf("%s#%d", name, rank)
	if hs, ok := fc.top.spec.OrphanHints[kb]; ok {
		before = hs
		fc.usedOrphanHints[kb] = true
	}
	if hs, ok := fc.top.spec.OrphanHints[ka]; ok {
		after = hs
		fc.usedOrphanHints[ka] = true
	}
	return
}

// adoptFor: the orphan loop clause (a clause of the contract under verification that names no loop of the function's
// own body) that belongs to the clause-less loop `li` of the contract-less helper executed in place in frame fr.
// Orphans are assigned, in ascending order, to the call sites of that helper in the function itself, in program order:
// one loop extracted into one helper, or several identical loops replaced by calls of one helper.
func (fc *fnCtx) adoptFor(fr *frame, li *loopInfo) *LoopSpec {
	if len(fc.orphanLoops) == 0 || len(fr.loops) != 1 {
		return nil
	}
	// the call site in the top frame through which execution entered the helper
	f := fr
	for f.parent != nil && f.parent != fc.top {
		f = f.parent
	}
	if f.parent != fc.top {
		return nil
	}
	key := fmt.Sprintf("%p@%s", li.header, f.site)
	if ls, ok := fc.adoptedAt[key]; ok {
		return ls
	}
	if n, ok := fc.siteLoop[f.site]; ok {
		// numbering fixed by source position (renumberLoops)
		if ls := fc.orphanLoops[n]; ls != nil {
			if fc.adoptedAt == nil {
				fc.adoptedAt = map[string]*LoopSpec{}
			}
			fc.adoptedAt[key] = ls
			fc.adoptedBy[li.header] = ls
			fc.adoptedN[ls.N] = li.header
			fc.e.warnings[fmt.Sprintf("%s: loop %d of the contract is attached to the loop of the helper %s called at %s (executed in place)", fc.key, ls.N, fr.key, f.site)] = true
			return ls
		}
	}
	// rank of this call site among the calls of the same helper in the top function
	var sites []string
	for _, b := range fc.top.fn.Blocks {
		for _, ins := range b.Instrs {
			c, ok := ins.(*ssa.Call)
			if !ok {
				continue
			}
			if callee := c.Common().StaticCallee(); callee != nil && originOf(callee) == originOf(f.fn) {
				sites = append(sites, fmt.Sprintf("call%d", fc.top.callOrd[c]))
			}
		}
	}
	rank := -1
	for i, sname := range sites {
		if sname == f.site {
			rank = i
		}
	}
	var orphans []int
	for n := range fc.orphanLoops {
		orphans = append(orphans, n)
	}
	sort.Ints(orphans)
	if rank < 0 || len(sites) != len(orphans) {
		return nil
	}
	ls := fc.orphanLoops[orphans[rank]]
	if fc.adoptedAt == nil {
		fc.adoptedAt = map[string]*LoopSpec{}
	}
	fc.adoptedAt[key] = ls
	fc.adoptedBy[li.header] = ls
	fc.adoptedN[ls.N] = li.header
	fc.e.warnings[fmt.Sprintf("%s: loop %d of the contract is attached to the loop of the helper %s called at %s (executed in place)", fc.key, ls.N, fr.key, f.site)] = true
	return ls
}

// loopVarsOf lists the named loop-carried variables of a function (by loop ordinal and phi position).
func loopVarsOf(fr *frame) []LoopVar {
	var out []LoopVar
	for _, li := range fr.loops {
		k := 0
		for _, ins := range li.header.Instrs {
			phi, ok := ins.(*ssa.Phi)
			if !ok {
				break
			}
			k++
			if phi.Comment != "" {
				out = append(out, LoopVar{Loop: li.ordinal, Index: k, Name: phi.Comment, Type: typeKey(phi.Type())})
			}
		}
	}
	// other named locals (loop 0): position among the locals of the same type, in order of first appearance
	seen := map[string]bool{}
	for _, lv := range out {
		seen[lv.Name] = true
	}
	perType := map[string]int{}
	for _, b := range fr.fn.Blocks {
		for _, ins := range b.Instrs {
			d, ok := ins.(*ssa.DebugRef)
			if !ok || d.IsAddr || d.Object() == nil {
				continue
			}
			v, isVar := d.Object().(*types.Var)
			if !isVar || seen[v.Name()] {
				continue
			}
			seen[v.Name()] = true
			t := typeKey(v.Type())
			perType[t]++
			out = append(out, LoopVar{Loop: 0, Index: perType[t], Name: v.Name(), Type: t})
		}
	}
	sort.SliceStable(out, func(i, j int) bool {
		if out[i].Loop != out[j].Loop {
			return out[i].Loop < out[j].Loop
		}
		if out[i].Loop == 0 && out[i].Type != out[j].Type {
			return out[i].Type < out[j].Type
		}
		return out[i].Index < out[j].Index
	})
	return out
}

// renamed: the present name of a loop-carried variable a contract still calls by its registered name.
func (fc *fnCtx) renamed(name string) (string, bool) {
	if fc.top == nil {
		return "", false
	}
	reg := fc.e.loopVars[fc.key]
	if len(reg) == 0 {
		return "", false
	}
	cur := loopVarsOf(fc.top)
	// loops of helpers that adopted a clause of this contract count as the loops the clauses were written for
	for n, header := range fc.adoptedN {
		k := 0
		for _, ins := range header.Instrs {
			phi, ok := ins.(*ssa.Phi)
			if !ok {
				break
			}
			k++
			if phi.Comment != "" {
				cur = append(cur, LoopVar{Loop: n, Index: k, Name: phi.Comment, Type: typeKey(phi.Type())})
			}
		}
	}
	known := map[string]bool{}
	for _, r := range reg {
		known[r.Name] = true
	}
	// plain locals: align the registered and the present locals of the same type between the names they share
	for _, r := range reg {
		if r.Name != name || r.Loop != 0 {
			continue
		}
		var olds, news []string
		for _, x := range reg {
			if x.Loop == 0 && x.Type == r.Type {
				olds = append(olds, x.Name)
			}
		}
		present := map[string]bool{}
		for _, c := range cur {
			present[c.Name] = true
			if c.Loop == 0 && c.Type == r.Type {
				news = append(news, c.Name)
			}
		}
		// segment of unmatched names around `name` in the old list, and the corresponding segment in the new list
		pos := -1
		for i, n := range olds {
			if n == name {
				pos = i
			}
		}
		if pos < 0 {
			continue
		}
		lo, hi := pos, pos
		for lo > 0 && !present[olds[lo-1]] {
			lo--
		}
		for hi+1 < len(olds) && !present[olds[hi+1]] {
			hi++
		}
		before, after := "", ""
		if lo > 0 {
			before = olds[lo-1]
		}
		if hi+1 < len(olds) {
			after = olds[hi+1]
		}
		start, end := 0, len(news)
		for i, n := range news {
			if before != "" && n == before {
				start = i + 1
			}
			if after != "" && n == after {
				end = i
			}
		}
		var seg []string
		for i := start; i < end && i < len(news); i++ {
			if !known[news[i]] {
				seg = append(seg, news[i])
			}
		}
		if len(seg) == hi-lo+1 {
			alt := seg[pos-lo]
			fc.e.warnings[fmt.Sprintf("%s: contract identifier %q resolved to the renamed local %q", fc.key, name, alt)] = true
			return alt, true
		}
	}
	for _, r := range reg {
		if r.Name != name || r.Loop == 0 {
			continue
		}
		for _, c := range cur {
			if c.Loop == r.Loop && c.Index == r.Index && c.Type == r.Type && c.Name != name && !known[c.Name] {
				fc.e.warnings[fmt.Sprintf("%s: contract identifier %q resolved to the renamed loop variable %q (loop %d)", fc.key, name, c.Name, c.Loop)] = true
				return c.Name, true
			}
		}
	}
	return "", false
}

// calleeName: the name a hint target `call NAME#K` refers to (method or function name without type arguments)
func calleeName(c *ssa.CallCommon) string {
	name := ""
	if c.IsInvoke() {
		name = c.Method.Name()
	} else if callee := c.StaticCallee(); callee != nil {
		name = callee.Name()
	} else if bi, ok := c.Value.(*ssa.Builtin); ok {
		name = bi.Name()
	}
	if i := strings.Index(name, "["); i >= 0 {
		name = name[:i]
	}
	return name
}

func (fc *fnCtx) newFrame(fn *ssa.Function, parent *frame) *frame {
	fr := &frame{fn: fn, parent: parent, loops: findLoops(fn), callOrd: map[ssa.Instruction]int{}}
	fr.key = fc.e.keyOf(fn)
	if parent != nil {
		fr.depth = parent.depth + 1
	}
	fr.spec = fc.e.contracts.Funcs[fr.key]
	n := 0
	for _, b := range fn.Blocks {
		for _, ins := range b.Instrs {
			switch ins.(type) {
			case *ssa.Call, *ssa.Go, *ssa.Defer:
				n++
				fr.callOrd[ins] = n
				if os.Getenv("VERIF_CALLS") != "" && parent == nil {
					nm := ""
					if ci, ok := ins.(ssa.CallInstruction); ok {
						nm = calleeName(ci.Common())
					}
					if nm != "" {
						dbgSeen[fr.key+" "+nm]++
					}
					fmt.Fprintf(os.Stderr, "CALLMAP\t%s\t%d\t%s\t%d\n", fr.key, n, nm, dbgSeen[fr.key+" "+nm])
				}
			}
		}
	}
	if fr.spec != nil && len(fr.spec.NamedHints) > 0 && !fr.spec.namedDone {
		// resolve NAME#K hint targets to call ordinals of this body
		fr.spec.namedDone = true
		seen := map[string]int{}
		resolved := map[string]bool{}
		for _, b := range fn.Blocks {
			for _, ins := range b.Instrs {
				ci, ok := ins.(ssa.CallInstruction)
				if !ok {
					continue
				}
				name := calleeName(ci.Common())
				if name == "" {
					continue
				}
				// a call of a contract-less helper counts as one occurrence of every name the helper calls exactly
				// once (the K of `call NAME#K` is stable when a statement moves into such a helper)
				for _, inner := range fc.helperCalls(ci) {
					seen[inner]++
				}
				seen[name]++
				for _, pre := range []string{"", "-"} {
					key := fmt.Sprintf("%s%s#%d", pre, name, seen[name])
					hs := fr.spec.NamedHints[key]
					if len(hs) == 0 {
						continue
					}
					resolved[key] = true
					n := fr.callOrd[ins]
					if pre == "-" {
						n = -n
					}
					if fr.spec.Hints == nil {
						fr.spec.Hints = map[int][]*Clause{}
					}
					for _, h := range hs {
						h.Ord = len(fr.spec.Hints[n]) + 1
						fr.spec.Hints[n] = append(fr.spec.Hints[n], h)
					}
				}
			}
		}
		for key, hs := range fr.spec.NamedHints {
			if !resolved[key] {
				// perhaps the call moved into a helper: decided when the body has been executed (verifyFunc)
				if fr.spec.OrphanHints == nil {
					fr.spec.OrphanHints = map[string][]*Clause{}
				}
				fr.spec.OrphanHints[key] = hs
			}
		}
	}
	if parent == nil && fr.spec != nil && len(fr.loops) >= 1 && len(fr.spec.Loops) > len(fr.loops) {
		fc.renumberLoops(fr)
	}
	for _, li := range fr.loops {
		if fr.spec != nil {
			li.spec = fr.spec.Loops[li.ordinal]
		}
	}
	return fr
}

// renumberLoops: the contract has more loop clauses than the function has loops of its own, and the function keeps
// some of them: part of its loops were extracted into contract-less helpers. The clauses were numbered in source
// order when all loops were in the body; the same order is recovered by merging the function's own loops with the
// call sites of helpers that contain exactly one loop, by source position. Applies only when the counts add up.
func (fc *fnCtx) renumberLoops(fr *frame) {
	type item struct {
		pos    int
		header *ssa.BasicBlock // own loop
		site   string          // helper call site
	}
	var items []item
	for h, li := range fr.loops {
		best := int(^uint(0) >> 1)
		for blk := range li.body {
			for _, ins := range blk.Instrs {
				if _, isPhi := ins.(*ssa.Phi); isPhi {
					continue
				}
				if p := ins.Pos(); p.IsValid() && int(p) < best {
					best = int(p)
				}
			}
		}
		items = append(items, item{pos: best, header: h})
	}
	for _, b := range fr.fn.Blocks {
		for _, ins := range b.Instrs {
			c, ok := ins.(*ssa.Call)
			if !ok {
				continue
			}
			callee := c.Common().StaticCallee()
			if callee == nil || !fc.e.inRepo(callee) || fc.e.contracts.Funcs[fc.e.keyOf(callee)] != nil {
				continue
			}
			o := originOf(callee)
			if len(o.Blocks) == 0 || len(findLoops(o)) != 1 {
				continue
			}
			for _, li := range fr.loops {
				if li.body[b] {
					return // a helper with a loop called inside a loop: not the simple extraction pattern
				}
			}
			items = append(items, item{pos: int(c.Pos()), site: fmt.Sprintf("call%d", fr.callOrd[c])})
		}
	}
	if len(items) != len(fr.spec.Loops) {
		return
	}
	sort.Slice(items, func(i, j int) bool { return items[i].pos < items[j].pos })
	changed := false
	for i, it := range items {
		if it.header != nil {
			if fr.loops[it.header].ordinal != i+1 {
				changed = true
			}
			fr.loops[it.header].ordinal = i + 1
		} else {
			if fc.siteLoop == nil {
				fc.siteLoop = map[string]int{}
			}
			fc.siteLoop[it.site] = i + 1
		}
	}
	if changed {
		fc.e.warnings[fmt.Sprintf("%s: loops renumbered by source position together with the call sites of loop-bearing helpers (part of the loops was extracted)", fr.key)] = true
	}
}

// ---------------------------------------------------------------------------
// values

// addrTerm gives an escaping address (e.g. &v.field passed to a method) a term of sort U.
func (fc *fnCtx) addrTerm(st *State, a *Addr) string {
	id, ok := fc.e.regionIDs[a.Region]
	if !ok {
		id = len(fc.e.regionIDs) + 1
		fc.e.regionIDs[a.Region] = id
	}
	base := a.Base
	if base == "" {
		base = "nil"
	}
	t := fmt.Sprintf("(addr_of %d %s)", id, base)
	fact := not(eq(t, "nil"))
	st.pc = append(st.pc, fact)
	return t
}

func (fc *fnCtx) val(st *State, v ssa.Value) Val {
	if x, ok := st.env[v]; ok {
		if x.S == SAddr && x.T == "" && x.A != nil && (x.A.Kind == "field" || x.A.Kind == "global") {
			x.T = fc.addrTerm(st, x.A)
		}
		return x
	}
	switch v := v.(type) {
	case *ssa.Const:
		return fc.constVal(st, v)
	case *ssa.Function:
		return Val{T: fc.funcConst(st, v), S: SU, GT: v.Type()}
	case *ssa.Global:
		// address of a package-level variable
		name := "global." + v.Pkg.Pkg.Name() + "." + v.Name()
		elem := v.Type().(*types.Pointer).Elem()
		ga := &Addr{Kind: "global", Region: name, Sort: sortOfType(elem), GT: elem}
		return Val{T: fc.addrTerm(st, ga), S: SAddr, A: ga, GT: v.Type()}
	case *ssa.Builtin:
		return Val{T: "nil", S: SU}
	case *ssa.FreeVar:
		fc.unsupported("free variable %s not bound", v.Name())
	}
	fc.unsupported("value %s (%T) has no symbolic value", v.Name(), v)
	return Val{}
}

func (fc *fnCtx) funcConst(st *State, f *ssa.Function) string {
	n := "fn." + sanitize(fc.e.keyOf(f))
	d := fmt.Sprintf("(declare-const %s U)", n)
	for _, x := range st.decls {
		if x == d {
			return n
		}
	}
	st.decls = append(st.decls, d)
	st.pc = append(st.pc, not(eq(n, "nil")))
	return n
}

func (fc *fnCtx) constVal(st *State, c *ssa.Const) Val {
	t := c.Type()
	s := sortOfType(t)
	if c.Value == nil {
		// zero value
		switch s {
		case SInt:
			return Val{T: "0", S: SInt, GT: t}
		case SBool:
			return Val{T: "false", S: SBool, GT: t}
		case SSlice:
			return Val{T: "nil_slice", S: SSlice, GT: t}
		case SStr:
			return fc.strLit(st, "", t)
		case SF64:
			return Val{T: "(_ +zero 11 53)", S: SF64, GT: t}
		case SC128:
			return Val{T: "(cplx_mk (_ +zero 11 53) (_ +zero 11 53))", S: SC128, GT: t}
		}
		if tp, ok := t.(*types.TypeParam); ok {
			z := fc.zeroByName(st, tp.Obj().Name())
			z.GT = t
			return z
		}
		switch t.Underlying().(type) {
		case *types.Struct, *types.Array:
			z := fc.zeroByName(st, types.TypeString(t, nil))
			z.GT = t
			return z
		}
		return Val{T: "nil", S: SU, GT: t}
	}
	switch s {
	case SInt:
		return Val{T: smtInt(c.Value.ExactString()), S: SInt, GT: t}
	case SBool:
		if constant.BoolVal(c.Value) {
			return Val{T: "true", S: SBool, GT: t}
		}
		return Val{T: "false", S: SBool, GT: t}
	case SStr:
		return fc.strLit(st, constant.StringVal(c.Value), t)
	case SF64:
		f, _ := constant.Float64Val(c.Value)
		return Val{T: fmt.Sprintf("((_ to_fp 11 53) RNE %s)", realLit(f)), S: SF64, GT: t}
	}
	if s == SC128 {
		re, _ := constant.Float64Val(constant.Real(c.Value))
		im, _ := constant.Float64Val(constant.Imag(c.Value))
		term := fmt.Sprintf("(cplx_mk ((_ to_fp 11 53) RNE %s) ((_ to_fp 11 53) RNE %s))", realLit(re), realLit(im))
		return Val{T: term, S: SC128, GT: t}
	}
	fc.unsupported("constant %s of type %s", c.Value, t)
	return Val{}
}

func realLit(f float64) string {
	if f < 0 {
		return fmt.Sprintf("(- %s)", realLit(-f))
	}
	s := fmt.Sprintf("%f", f)
	return s
}

func (fc *fnCtx) strLit(st *State, s string, t types.Type) Val {
	id, ok := fc.e.strLits[s]
	if !ok {
		id = len(fc.e.strLits)
		fc.e.strLits[s] = id
	}
	term := fmt.Sprintf("(str_lit %d)", id)
	fact := fmt.Sprintf("(and (= (str_id %s) %d) (= (str_len %s) %d))", term, id, term, len(s))
	found := false
	for _, x := range st.pc {
		if x == fact {
			found = true
			break
		}
	}
	if !found {
		st.pc = append(st.pc, fact)
	}
	return Val{T: term, S: SStr, GT: t}
}

func (fc *fnCtx) bind(st *State, v ssa.Value, x Val) {
	if x.GT == nil {
		x.GT = v.Type()
	}
	st.env[v] = x
}

// define introduces a named constant for an SSA result (keeps queries readable).
func (fc *fnCtx) define(st *State, v ssa.Value, term string) Val {
	s := sortOfType(v.Type())
	n := fc.declare(st, v.Name(), s.SMT())
	st.pc = append(st.pc, eq(n, term))
	x := Val{T: n, S: s, GT: v.Type()}
	st.env[v] = x
	return x
}

// boxing -------------------------------------------------------------------

func (fc *fnCtx) box(st *State, v Val) Val {
	switch v.S {
	case SU:
		return v
	case SInt, SBool, SSlice, SStr, SF64, SC128:
		sn := v.S.Short()
		t := app("box_"+sn, v.T)
		st.pc = append(st.pc, eq(app("unbox_"+sn, t), v.T))
		if v.S == SSlice {
			// the identity of a boxed slice (an array_ value) is its backing array
			st.pc = append(st.pc, eq(app("atime", t), app("atime", app("sl_arr", v.T))), not(eq(t, "nil")))
		}
		return Val{T: t, S: SU, GT: v.GT}
	}
	fc.unsupported("cannot box sort %s", v.S.Short())
	return v
}

func (fc *fnCtx) unbox(st *State, v Val, t types.Type) Val {
	s := sortOfType(t)
	if s == SU {
		return Val{T: v.T, S: SU, GT: t}
	}
	r := Val{T: app("unbox_"+s.Short(), v.T), S: s, GT: t}
	return r
}

// ---------------------------------------------------------------------------
// obligations

func (fc *fnCtx) emit(st *State, name, kind, clause, loc, goal string, props []string) {
	if os.Getenv("VERIF_SPLIT") != "" && strings.HasPrefix(goal, "(and ") {
		for i, part := range splitTop(goal[5 : len(goal)-1]) {
			fc.emit(st, fmt.Sprintf("%s#%d", name, i+1), kind, clause+" [conjunct "+fmt.Sprint(i+1)+": "+trunc(part, 200)+"]", loc, part, props)
		}
		return
	}
	fc.emitQ(st, name, kind, clause, loc, goal, props, false)
}

// splitTop splits a space-separated list of s-expressions at nesting depth 0.
func splitTop(s string) []string {
	var out []string
	depth, start := 0, 0
	for i, c := range s {
		switch c {
		case '(':
			depth++
		case ')':
			depth--
		case ' ':
			if depth == 0 {
				if i > start {
					out = append(out, s[start:i])
				}
				start = i + 1
			}
		}
	}
	if start < len(s) {
		out = append(out, s[start:])
	}
	return out
}

func (fc *fnCtx) emitQ(st *State, name, kind, clause, loc, goal string, props []string, vacuity bool) {
	if fc.interf && kind != "ipost" && kind != "lockinv" {
		return // the interference pass re-executes the body only for its own obligations
	}
	o := fc.e.oblByName[name]
	if o == nil {
		o = &Obligation{Name: name, Func: fc.key, Kind: kind, Clause: clause, Loc: loc, Props: props, Vacuous: vacuity}
		fc.e.oblByName[name] = o
		fc.e.obls = append(fc.e.obls, o)
	}
	var sb strings.Builder
	body := strings.Join(st.decls, "\n") + "\n"
	var asserts strings.Builder
	for _, a := range st.pc {
		asserts.WriteString("(assert " + a + ")\n")
	}
	for _, g := range fc.knownGuards(st, name) {
		asserts.WriteString("(assert " + g + ") ; known-finding guard\n")
	}
	asserts.WriteString("(assert " + not(goal) + ")\n")
	all := body + asserts.String()
	ax := fc.e.axiomText(fc, st, all)
	sb.WriteString(preludeForKind(all, ax, kind))
	sb.WriteString(ax)
	sb.WriteString(body)
	sb.WriteString(asserts.String())
	sb.WriteString("(check-sat)\n")
	fc.nquery++
	o.Queries = append(o.Queries, &Query{Path: strings.Join(st.trace, " "), SMT: sb.String(), Goal: goal})
}

func (fc *fnCtx) oblName(fr *frame, suffix string) string {
	if fr.parent == nil {
		return fc.key + "." + suffix
	}
	return fc.key + "." + suffix + "@" + shortKey(fr.key)
}

func shortKey(k string) string {
	if i := strings.Index(k, "."); i >= 0 {
		return k[i+1:]
	}
	return k
}

// ---------------------------------------------------------------------------
// block execution

func (fc *fnCtx) execBlock(st *State, fr *frame, b *ssa.BasicBlock, pred *ssa.BasicBlock) {
	if fc.aborted != "" {
		return
	}
	// phis
	if pred != nil {
		idx := -1
		for i, p := range b.Preds {
			if p == pred {
				idx = i
				break
			}
		}
		var phis []*ssa.Phi
		var vals []Val
		for _, ins := range b.Instrs {
			phi, ok := ins.(*ssa.Phi)
			if !ok {
				break
			}
			phis = append(phis, phi)
			vals = append(vals, fc.val(st, phi.Edges[idx]))
		}
		for i, phi := range phis {
			v := vals[i]
			v.GT = phi.Type()
			st.env[phi] = v
			if phi.Comment != "" {
				st.names[phi.Comment] = v
			}
		}
	}
	if li, ok := fr.loops[b]; ok {
		if !fc.atLoopHeader(st, fr, li, pred) {
			return
		}
	}
	st.trace = append(st.trace, fmt.Sprintf("b%d", b.Index))
	fc.execFrom(st, fr, b, firstNonPhi(b))
}

func firstNonPhi(b *ssa.BasicBlock) int {
	for i, ins := range b.Instrs {
		if _, ok := ins.(*ssa.Phi); !ok {
			return i
		}
	}
	return len(b.Instrs)
}

// atLoopHeader implements the loop cut. It returns false when the path ends here.
func (fc *fnCtx) atLoopHeader(st *State, fr *frame, li *loopInfo, pred *ssa.BasicBlock) bool {
	fromInside := pred != nil && li.body[pred]
	lname := fmt.Sprintf("loop%d", li.ordinal)
	// a variable used inside the loop with a value defined outside it has that value at the
	// header (go/ssa binds some declarations only at their first use)
	phiNames := map[string]bool{}
	for _, ins := range li.header.Instrs {
		if phi, ok := ins.(*ssa.Phi); ok && phi.Comment != "" {
			phiNames[phi.Comment] = true
		}
	}
	for blk := range li.body {
		for _, ins := range blk.Instrs {
			d, ok := ins.(*ssa.DebugRef)
			if !ok || d.IsAddr || d.Object() == nil {
				continue
			}
			if _, isVar := d.Object().(*types.Var); !isVar || phiNames[d.Object().Name()] {
				continue
			}
			if def, isIns := d.X.(ssa.Instruction); isIns && li.body[def.Block()] {
				continue
			}
			if v, ok := fc.tryVal(st, d.X); ok {
				if cur, has := st.names[d.Object().Name()]; !has || cur.T == "nil" || cur.T == "nil_slice" {
					st.names[d.Object().Name()] = v
				}
			}
		}
	}
	ofr := fr // frame that names the loop's obligations
	if li.spec == nil && fr.parent != nil {
		// a loop without clauses in a contract-less callee executed in place: if the contract under verification
		// has exactly one loop clause that names no loop of its own body, the loop was moved into this helper
		if ls := fc.adoptFor(fr, li); ls != nil {
			// (the helper's loopInfo is shared between its call sites: the clause is chosen per call site)
			spec := *ls
			li = &loopInfo{header: li.header, body: li.body, ordinal: li.ordinal, spec: &spec}
			ofr = fc.top
			lname = fmt.Sprintf("loop%d", ls.N)
		}
	}
	if li.spec == nil {
		fc.unsupported("loop %d of %s has no invariant/decreases clause", li.ordinal, fr.key)
	}
	// (an adopted clause is evaluated in the context of the function whose contract it belongs to)
	sc := fc.specCtxFor(st, ofr)
	sc.useNames = true
	if li.spec.Unreachable != nil {
		// the contract says no path reaches this loop under the precondition: prove it and stop here
		fc.emit(st, fc.oblName(ofr, lname+".unreachable"), "loop.init", "no path reaches this loop under the function's precondition", clauseLoc(li.spec.Unreachable), "false", li.spec.Unreachable.Tags)
		return false
	}
	if fromInside {
		for _, inv := range li.spec.Invariants {
			g := fc.evalBoolClause(sc, inv, fc.oblName(ofr, fmt.Sprintf("%s.preserve.inv%d", lname, inv.Ord)))
			if g != "" {
				fc.emit(st, fc.oblName(ofr, fmt.Sprintf("%s.preserve.inv%d", lname, inv.Ord)), "loop.preserve", inv.Text, clauseLoc(inv), g, inv.Tags)
			}
		}
		if li.spec.Decreases != nil && strings.TrimSpace(li.spec.Decreases.Text) != "*" {
			v0, ok := st.loopVar[li.header]
			if ok {
				g := fc.evalIntClause(sc, li.spec.Decreases, fc.oblName(ofr, lname+".decreases"))
				if g != "" {
					fc.emit(st, fc.oblName(ofr, lname+".decreases"), "loop.decreases", li.spec.Decreases.Text, clauseLoc(li.spec.Decreases),
						fmt.Sprintf("(and (>= %s 0) (< %s %s))", v0, g, v0), li.spec.Decreases.Tags)
				}
			}
		}
		return false
	}
	// entry from outside
	for _, inv := range li.spec.Invariants {
		g := fc.evalBoolClause(sc, inv, fc.oblName(ofr, fmt.Sprintf("%s.init.inv%d", lname, inv.Ord)))
		if g != "" {
			fc.emit(st, fc.oblName(ofr, fmt.Sprintf("%s.init.inv%d", lname, inv.Ord)), "loop.init", inv.Text, clauseLoc(inv), g, inv.Tags)
		}
	}
	// havoc loop-carried values
	for _, ins := range li.header.Instrs {
		phi, ok := ins.(*ssa.Phi)
		if !ok {
			break
		}
		v := fc.freshVal(st, phi.Name(), phi.Type())
		st.env[phi] = v
		if phi.Comment != "" {
			st.names[phi.Comment] = v
		}
	}
	fc.havocLoopWrites(st, fr, li)
	sc = fc.specCtxFor(st, ofr)
	sc.useNames = true
	for _, inv := range li.spec.Invariants {
		g := fc.evalBoolClause(sc, inv, "")
		if g != "" {
			st.pc = append(st.pc, g)
		}
	}
	// vacuity guard: the invariants must be satisfiable together with the path so far
	fc.emitQ(st, fc.oblName(ofr, "smoke."+lname), "smoke", "loop invariants are satisfiable", "", "false", nil, true)
	if li.spec.Decreases != nil && strings.TrimSpace(li.spec.Decreases.Text) == "*" {
		fc.e.warnings[fmt.Sprintf("termination of loop %d of %s is not claimed (decreases *)", li.ordinal, fr.key)] = true
	} else if li.spec.Decreases != nil {
		g := fc.evalIntClause(sc, li.spec.Decreases, "")
		if g != "" {
			n := fc.declare(st, "variant", "Int")
			st.pc = append(st.pc, eq(n, g))
			st.loopVar[li.header] = n
		}
	} else {
		fc.emit(st, fc.oblName(ofr, lname+".decreases"), "loop.decreases", "(missing decreases clause)", "", "false", nil)
	}
	return true
}

func clauseLoc(c *Clause) string {
	if c == nil {
		return ""
	}
	return fmt.Sprintf("%s:%d", c.File, c.Line)
}

func (fc *fnCtx) evalBoolClause(sc *specCtx, c *Clause, oblForError string) (goal string) {
	defer func() {
		if r := recover(); r != nil {
			if se, ok := r.(specError); ok {
				fc.contractError(sc.st, c, se.msg)
				goal = ""
				return
			}
			panic(r)
		}
	}()
	v := sc.eval(c.E)
	sc.want(v, SBool, c.E)
	return v.T
}

func (fc *fnCtx) evalIntClause(sc *specCtx, c *Clause, oblForError string) (goal string) {
	defer func() {
		if r := recover(); r != nil {
			if se, ok := r.(specError); ok {
				fc.contractError(sc.st, c, se.msg)
				goal = ""
				return
			}
			panic(r)
		}
	}()
	v := sc.eval(c.E)
	sc.want(v, SInt, c.E)
	return v.T
}

func (fc *fnCtx) contractError(st *State, c *Clause, msg string) {
	name := fc.key + ".contract.resolves"
	o := fc.e.oblByName[name]
	if o == nil {
		o = &Obligation{Name: name, Func: fc.key, Kind: "contract.resolves", Clause: c.Text, Loc: clauseLoc(c)}
		fc.e.oblByName[name] = o
		fc.e.obls = append(fc.e.obls, o)
	}
	o.Status = "error"
	if !strings.Contains(o.Note, msg) {
		o.Note += fmt.Sprintf("%s: %s (clause: %s); ", clauseLoc(c), msg, c.Text)
	}
}

// havocLoopWrites havocs every heap location the loop body may write.
func (fc *fnCtx) havocLoopWrites(st *State, fr *frame, li *loopInfo) {
	inLoop := func(v ssa.Value) bool {
		ins, ok := v.(ssa.Instruction)
		if !ok {
			return false
		}
		return li.body[ins.Block()]
	}
	whole := map[string]bool{}
	freshOnly := map[string]bool{} // regions written in the loop only at objects allocated inside the loop
	notFreshOnly := map[string]bool{}
	type tgt struct{ region, obj string }
	var precise []tgt
	var freshInLoop func(v ssa.Value) bool
	freshInLoop = func(v ssa.Value) bool {
		switch x := v.(type) {
		case *ssa.Alloc, *ssa.MakeSlice, *ssa.MakeMap, *ssa.MakeClosure, *ssa.MakeChan:
			return inLoop(v)
		case *ssa.Slice:
			return freshInLoop(x.X)
		}
		return false
	}
	addWrite := func(region string, base ssa.Value, baseTerm func() string) {
		if region == "" {
			return
		}
		if base == nil || inLoop(base) {
			if base != nil && freshInLoop(base) {
				freshOnly[region] = true
			} else {
				notFreshOnly[region] = true
			}
			whole[region] = true
			return
		}
		precise = append(precise, tgt{region, baseTerm()})
	}
	allocs := false
	preLoopNow := st.now
	wholeByCall := map[string]bool{}
	for blk := range li.body {
		for _, ins := range blk.Instrs {
			switch ins := ins.(type) {
			case *ssa.Store:
				fc.writeTarget(st, ins.Addr, addWrite)
			case *ssa.MapUpdate:
				fc.mapRegions(st)
				for _, r := range []string{"map.dom", "map.get", "map.card"} {
					addWrite(r, ins.Map, func() string { return fc.val(st, ins.Map).T })
				}
			case *ssa.Next:
				whole["range.pos"] = true
			case *ssa.Range:
				whole["range.pos"] = true
				allocs = true
			case *ssa.Alloc, *ssa.MakeSlice, *ssa.MakeMap, *ssa.MakeChan, *ssa.MakeClosure:
				allocs = true
			case *ssa.Call:
				allocs = true
				cw := map[string]bool{}
				fc.callWrites(st, fr, ins, inLoop, cw, func(region, obj string) { precise = append(precise, tgt{region, obj}) })
				for r := range cw {
					whole[r] = true
					wholeByCall[r] = true
				}
			case *ssa.Send, *ssa.Go, *ssa.Defer:
				fc.unsupported("%T inside a loop", ins)
			}
		}
	}
	if allocs {
		n := fc.declare(st, "now", "Int")
		st.pc = append(st.pc, fmt.Sprintf("(>= %s %s)", n, st.now))
		st.now = n
	}
	loopEntryNow := st.now
	if allocs {
		// st.now was advanced above; objects that existed before the loop have atime below the old clock
	}
	for r := range whole {
		prev := st.heap[r]
		fc.havocRegion(st, r)
		if freshOnly[r] && !notFreshOnly[r] && !wholeByCall[r] && prev != "" && strings.HasPrefix(fc.regionSort[r], "(Array U ") {
			// only objects allocated inside the loop are written: everything older is untouched
			st.pc = append(st.pc, fmt.Sprintf("(forall ((o U)) (! (=> (< (atime o) %s) (= (select %s o) (select %s o))) :pattern ((select %s o))))", preLoopNow, st.heap[r], prev, st.heap[r]))
		}
	}
	_ = loopEntryNow
	for _, t := range precise {
		if whole[t.region] {
			continue
		}
		srt := fc.regionSort[t.region]
		if srt == "" {
			continue
		}
		cur := st.heap[t.region]
		if cur == "" {
			continue
		}
		// new region equals the old one except at obj
		elemSort := srt[len("(Array U ") : len(srt)-1]
		h := fc.declare(st, "hv", elemSort)
		n := fc.declare(st, sanitize(t.region), srt)
		st.pc = append(st.pc, eq(n, store(cur, t.obj, h)))
		st.heap[t.region] = n
	}
}

func (fc *fnCtx) writeTarget(st *State, addr ssa.Value, add func(region string, base ssa.Value, baseTerm func() string)) {
	switch a := addr.(type) {
	case *ssa.FieldAddr:
		named, ok := derefNamed(a.X.Type())
		if !ok {
			fc.unsupported("store through field of unnamed struct")
		}
		stt := named.Underlying().(*types.Struct)
		f := stt.Field(a.Field)
		rn := fieldRegion(named.Origin(), f.Name())
		fc.region(st, rn, regionArraySort(sortOfType(f.Type())))
		add(rn, a.X, func() string { return fc.val(st, a.X).T })
	case *ssa.IndexAddr:
		var es Sort
		switch t := a.X.Type().Underlying().(type) {
		case *types.Slice:
			es = sortOfType(t.Elem())
		case *types.Pointer:
			es = sortOfType(t.Elem().Underlying().(*types.Array).Elem())
		}
		rn, rs := elemsRegion(es)
		fc.region(st, rn, rs)
		if _, isSlice := a.X.Type().Underlying().(*types.Slice); isSlice {
			add(rn, a.X, func() string { return app("sl_arr", fc.val(st, a.X).T) })
		} else {
			add(rn, a.X, func() string { return fc.val(st, a.X).T })
		}
	case *ssa.Alloc:
		es := sortOfType(a.Type().(*types.Pointer).Elem())
		rn, rs := cellRegion(es)
		fc.region(st, rn, rs)
		add(rn, a, func() string { return fc.val(st, a).T })
	case *ssa.Global:
		name := "global." + a.Pkg.Pkg.Name() + "." + a.Name()
		add(name, nil, nil)
	default:
		// pointer value (parameter, free variable, load): a cell write
		if p, ok := addr.Type().Underlying().(*types.Pointer); ok {
			es := sortOfType(p.Elem())
			rn, rs := cellRegion(es)
			fc.region(st, rn, rs)
			add(rn, addr, func() string { return fc.val(st, addr).T })
			return
		}
		fc.unsupported("store through %T", addr)
	}
}

// callWrites over-approximates the heap regions a call inside a loop may write.
func (fc *fnCtx) callWrites(st *State, fr *frame, call *ssa.Call, inLoop func(ssa.Value) bool, whole map[string]bool, precise func(region, obj string)) {
	c := call.Common()
	if b, ok := c.Value.(*ssa.Builtin); ok && c.Method == nil {
		switch b.Name() {
		case "copy":
			var es Sort = SU
			if sl, ok := c.Args[0].Type().Underlying().(*types.Slice); ok {
				es = sortOfType(sl.Elem())
			}
			rn, rs := elemsRegion(es)
			fc.region(st, rn, rs)
			dst := c.Args[0]
			for {
				// a sub-slice shares the backing array of its operand
				sl, ok := dst.(*ssa.Slice)
				if !ok {
					break
				}
				if _, isSlice := sl.X.Type().Underlying().(*types.Slice); !isSlice {
					break
				}
				dst = sl.X
			}
			if inLoop(dst) {
				whole[rn] = true
			} else {
				precise(rn, app("sl_arr", fc.val(st, dst).T))
			}
		case "delete":
			fc.mapRegions(st)
			for _, r := range []string{"map.dom", "map.get", "map.card"} {
				if inLoop(c.Args[0]) {
					whole[r] = true
				} else {
					precise(r, fc.val(st, c.Args[0]).T)
				}
			}
		case "close":
			whole["chan.closed"] = true
		}
		return
	}
	spec := fc.lookupSpec(call)
	if spec == nil {
		if callee := c.StaticCallee(); callee != nil && fc.e.inRepo(callee) && len(originOf(callee).Blocks) > 0 {
			// inlined callee: scan its body; a store through one of its parameters is a store through the
			// corresponding argument of this call (precise when that argument is defined outside the loop)
			fc.scanWritesArgs(st, originOf(callee), c.Args, inLoop, whole, precise, 0)
		}
		return
	}
	if spec.flags["syncwrites"] {
		return // registry accessors: nothing a caller can observe changes (see applySpec)
	}
	// receiver and arguments defined outside the loop can be evaluated now; the others are unknown
	var recv *Val
	var argVals []ssa.Value
	if c.IsInvoke() {
		if !inLoop(c.Value) {
			r := fc.val(st, c.Value)
			recv = &r
		}
		argVals = c.Args
	} else if callee := c.StaticCallee(); callee != nil && callee.Signature.Recv() != nil && len(c.Args) > 0 {
		if !inLoop(c.Args[0]) {
			r := fc.val(st, c.Args[0])
			recv = &r
		}
		argVals = c.Args[1:]
	} else {
		argVals = c.Args
	}
	for _, m := range spec.modifiesFor() {
		locs := m.E.(*CallE).Args
		for _, loc := range locs {
			region, objExpr := fc.locRegion(st, loc, spec, nil, nil)
			if region == "" {
				continue
			}
			if fe, isField := loc.(*FieldE); isField {
				done := false
				func() {
					defer func() {
						if r := recover(); r != nil {
							switch r.(type) {
							case specError, translateError:
								return
							}
							panic(r)
						}
					}()
					sc := &specCtx{fc: fc, st: st, heap: st.heap, now: st.now, vars: map[string]Val{}, params: map[string]Val{}}
					if recv != nil {
						sc.vars["this"] = *recv
					}
					for i, p := range m.params {
						if i < len(argVals) && !inLoop(argVals[i]) {
							sc.params[p] = fc.val(st, argVals[i])
						}
					}
					obj := sc.eval(fe.X)
					named, ok := derefNamed(obj.GT)
					if !ok {
						return
					}
					stt, ok := named.Underlying().(*types.Struct)
					if !ok {
						return
					}
					for i := 0; i < stt.NumFields(); i++ {
						if f := stt.Field(i); f.Name() == fe.Name {
							rn := fieldRegion(named.Origin(), f.Name())
							fc.region(st, rn, regionArraySort(sortOfType(f.Type())))
							precise(rn, obj.T)
							done = true
						}
					}
				}()
				if done {
					continue
				}
			}
			if region == "map.*" && objExpr != nil {
				fc.mapRegions(st)
				done := false
				func() {
					defer func() {
						if r := recover(); r != nil {
							switch r.(type) {
							case specError, translateError:
								return
							}
							panic(r)
						}
					}()
					sc := &specCtx{fc: fc, st: st, heap: st.heap, now: st.now, vars: map[string]Val{}, params: map[string]Val{}}
					if recv != nil {
						sc.vars["this"] = *recv
					}
					for i, p := range m.params {
						if i < len(argVals) && !inLoop(argVals[i]) {
							sc.params[p] = fc.val(st, argVals[i])
						}
					}
					obj := sc.eval(objExpr)
					for _, r := range []string{"map.dom", "map.get", "map.card"} {
						precise(r, obj.T)
					}
					done = true
				}()
				if done {
					continue
				}
			}
			if objExpr == nil || strings.HasPrefix(region, "field:") || region == "*" || region == "map.*" {
				if region == "*" {
					for r := range fc.regionSort {
						whole[r] = true
					}
				} else if region == "map.*" {
					whole["map.dom"], whole["map.get"], whole["map.card"] = true, true, true
				} else {
					for r := range fc.regionSort {
						if strings.HasSuffix(r, "."+strings.TrimPrefix(region, "field:")) {
							whole[r] = true
						}
					}
				}
				continue
			}
			func() {
				defer func() {
					if r := recover(); r != nil {
						switch r.(type) {
						case specError, translateError:
							whole[region] = true
							return
						}
						panic(r)
					}
				}()
				sc := &specCtx{fc: fc, st: st, heap: st.heap, now: st.now, vars: map[string]Val{}, params: map[string]Val{}}
				if i := strings.Index(spec.key, "."); i >= 0 {
					sc.pkg = spec.key[:i]
				}
				if recv != nil {
					sc.vars["this"] = *recv
				}
				for i, p := range m.params {
					if i >= len(argVals) {
						continue
					}
					if !inLoop(argVals[i]) {
						sc.params[p] = fc.val(st, argVals[i])
						continue
					}
					// a sub-slice computed inside the loop of a slice defined outside it: same backing array
					base := argVals[i]
					for {
						sl, ok := base.(*ssa.Slice)
						if !ok {
							break
						}
						if _, isSlice := sl.X.Type().Underlying().(*types.Slice); !isSlice {
							break
						}
						base = sl.X
					}
					if base != argVals[i] && !inLoop(base) {
						bv := fc.val(st, base)
						sc.params[p] = Val{T: fmt.Sprintf("(mk_slice (sl_arr %s) 0 0 0)", bv.T), S: SSlice, GT: argVals[i].Type()}
					}
				}
				obj := sc.eval(objExpr)
				t := obj.T
				if obj.S == SSlice {
					t = app("sl_arr", obj.T)
					if region == "M.view" {
						region, _ = elemsRegion(SU)
					}
				}
				precise(region, t)
				// a concrete receiver with a model clause: its representation may change too
				if named, ok := derefNamed(obj.GT); ok && strings.HasPrefix(region, "M.") {
					if _, isIface := named.Underlying().(*types.Interface); !isIface {
						pkg := ""
						if named.Obj().Pkg() != nil {
							pkg = named.Obj().Pkg().Name()
						}
						if ts := fc.e.contracts.Types[pkg+"."+named.Obj().Name()]; ts != nil && ts.Models[strings.TrimPrefix(region, "M.")] != nil {
							whole[region] = true
							for m := range fc.e.contracts.Models {
								if _, ok := fc.regionSort["M."+m]; ok {
									whole["M."+m] = true
								}
							}
							if stt, ok := named.Underlying().(*types.Struct); ok {
								for i := 0; i < stt.NumFields(); i++ {
									f := stt.Field(i)
									if fc.e.immutableFn(named, f.Name()) != "" {
										continue
									}
									rn := fieldRegion(named.Origin(), f.Name())
									fc.region(st, rn, regionArraySort(sortOfType(f.Type())))
									precise(rn, obj.T)
									if _, isMap := f.Type().Underlying().(*types.Map); isMap {
										fc.mapRegions(st)
										whole["map.dom"], whole["map.get"], whole["map.card"] = true, true, true
									}
								}
							}
							if stt, ok := named.Underlying().(*types.Struct); ok && false {
								var walk func(e Expr)
								walk = func(e Expr) {
									switch x := e.(type) {
									case *FieldE:
										if id, ok := x.X.(*Ident); ok && id.Name == "this" {
											for i := 0; i < stt.NumFields(); i++ {
												if f := stt.Field(i); f.Name() == x.Name {
													rn := fieldRegion(named.Origin(), f.Name())
													fc.region(st, rn, regionArraySort(sortOfType(f.Type())))
													precise(rn, obj.T)
												}
											}
										} else {
											walk(x.X)
										}
									case *CallE:
										for _, a := range x.Args {
											walk(a)
										}
									case *Binary:
										walk(x.X)
										walk(x.Y)
									}
								}
								walk(ts.Models[strings.TrimPrefix(region, "M.")].E)
							}
						}
					}
				}
			}()
		}
	}
}

func originOf(f *ssa.Function) *ssa.Function {
	if o := f.Origin(); o != nil {
		return o
	}
	return f
}

// scanWritesArgs: like scanWrites, but stores whose target is reached through a parameter of the callee are
// attributed to the caller's argument.
func (fc *fnCtx) scanWritesArgs(st *State, fn *ssa.Function, args []ssa.Value, inLoop func(ssa.Value) bool, whole map[string]bool, precise func(region, obj string), depth int) {
	if depth > 4 || len(args) != len(fn.Params) {
		fc.scanWrites(fn, whole, depth)
		return
	}
	argOf := map[ssa.Value]ssa.Value{}
	for i, p := range fn.Params {
		argOf[p] = args[i]
	}
	outer := func(v ssa.Value) (ssa.Value, bool) {
		a, ok := argOf[v]
		if !ok || inLoop(a) {
			return nil, false
		}
		if _, known := fc.tryVal(st, a); !known {
			return nil, false
		}
		return a, true
	}
	for _, b := range fn.Blocks {
		for _, ins := range b.Instrs {
			switch ins := ins.(type) {
			case *ssa.Store:
				switch a := ins.Addr.(type) {
				case *ssa.FieldAddr:
					if named, ok := derefNamed(a.X.Type()); ok {
						f := named.Underlying().(*types.Struct).Field(a.Field)
						rn := fieldRegion(named.Origin(), f.Name())
						if av, ok := outer(a.X); ok {
							fc.region(st, rn, regionArraySort(sortOfType(f.Type())))
							precise(rn, fc.val(st, av).T)
						} else {
							whole[rn] = true
						}
					}
				case *ssa.IndexAddr:
					if sl, ok := a.X.Type().Underlying().(*types.Slice); ok {
						rn, rs := elemsRegion(sortOfType(sl.Elem()))
						if av, ok := outer(a.X); ok {
							fc.region(st, rn, rs)
							precise(rn, app("sl_arr", fc.val(st, av).T))
						} else {
							whole[rn] = true
						}
					}
				}
			case *ssa.MapUpdate:
				whole["map.dom"], whole["map.get"], whole["map.card"] = true, true, true
			case *ssa.Call:
				c := ins.Common()
				if callee := c.StaticCallee(); callee != nil && fc.e.inRepo(callee) {
					if fc.e.contracts.Funcs[fc.e.keyOf(callee)] == nil {
						// pass the mapping on where arguments are parameters of this function
						var inner []ssa.Value
						okAll := true
						for _, x := range c.Args {
							if a, ok := argOf[x]; ok {
								inner = append(inner, a)
							} else {
								okAll = false
							}
						}
						if okAll {
							fc.scanWritesArgs(st, originOf(callee), inner, inLoop, whole, precise, depth+1)
						} else {
							fc.scanWrites(originOf(callee), whole, depth+1)
						}
					} else if sp := fc.lookupSpec(ins); sp != nil && !sp.flags["syncwrites"] {
						// a callee under contract inside the helper: over-approximate by the regions its modifies clauses name
						// receiver and arguments that are parameters of the helper bound to loop-invariant caller values
						msc := &specCtx{fc: fc, st: st, heap: st.heap, now: st.now, vars: map[string]Val{}, params: map[string]Val{}}
						if i := strings.Index(sp.key, "."); i >= 0 {
							msc.pkg = sp.key[:i]
						}
						cargs := c.Args
						if sc := c.StaticCallee(); sc != nil && sc.Signature.Recv() != nil && len(cargs) > 0 {
							if av, ok := outer(cargs[0]); ok {
								msc.vars["this"] = fc.val(st, av)
							}
							cargs = cargs[1:]
						}
						for _, m := range sp.modifiesFor() {
							for i, pn := range m.params {
								if i < len(cargs) {
									if av, ok := outer(cargs[i]); ok {
										msc.params[pn] = fc.val(st, av)
									}
								}
							}
							for _, loc := range m.E.(*CallE).Args {
								func() {
									defer func() { recover() }()
									region, objExpr := fc.locRegion(st, loc, sp, nil, nil)
									// precise target when the object is reachable from the bound receiver/arguments
									if objExpr != nil && region != "*" && region != "map.*" {
										done := false
										func() {
											defer func() { recover() }()
											obj := msc.eval(objExpr)
											if fe, isField := loc.(*FieldE); isField {
												if named, ok := derefNamed(obj.GT); ok {
													rn := fieldRegion(named.Origin(), fe.Name)
													if _, known := fc.regionSort[rn]; known {
														precise(rn, obj.T)
														done = true
													}
												}
											} else if !strings.HasPrefix(region, "field:") {
												t := obj.T
												if obj.S == SSlice {
													t = app("sl_arr", obj.T)
												}
												precise(region, t)
												done = true
											}
										}()
										if done {
											return
										}
									}
									switch {
									case region == "*":
										for r := range fc.regionSort {
											whole[r] = true
										}
									case region == "map.*":
										whole["map.dom"], whole["map.get"], whole["map.card"] = true, true, true
									case strings.HasPrefix(region, "field:"):
										for r := range fc.regionSort {
											if strings.HasSuffix(r, "."+strings.TrimPrefix(region, "field:")) {
												whole[r] = true
											}
										}
									case region != "":
										whole[region] = true
									}
								}()
							}
						}
					}
				}
			}
		}
	}
}

func (fc *fnCtx) scanWrites(fn *ssa.Function, whole map[string]bool, depth int) {
	if depth > 4 {
		return
	}
	for _, b := range fn.Blocks {
		for _, ins := range b.Instrs {
			switch ins := ins.(type) {
			case *ssa.Store:
				switch a := ins.Addr.(type) {
				case *ssa.FieldAddr:
					if named, ok := derefNamed(a.X.Type()); ok {
						f := named.Underlying().(*types.Struct).Field(a.Field)
						whole[fieldRegion(named.Origin(), f.Name())] = true
					}
				case *ssa.IndexAddr:
					if sl, ok := a.X.Type().Underlying().(*types.Slice); ok {
						rn, _ := elemsRegion(sortOfType(sl.Elem()))
						whole[rn] = true
					}
				}
			case *ssa.MapUpdate:
				whole["map.dom"], whole["map.get"], whole["map.card"] = true, true, true
			case *ssa.Call:
				if callee := ins.Common().StaticCallee(); callee != nil && fc.e.inRepo(callee) {
					if fc.e.contracts.Funcs[fc.e.keyOf(callee)] == nil {
						fc.scanWrites(originOf(callee), whole, depth+1)
					}
				}
			}
		}
	}
}

// locRegion maps a modifies location expression to (region, object expression).
func (fc *fnCtx) locRegion(st *State, loc Expr, spec *effSpec, recv *Val, args []Val) (string, Expr) {
	switch l := loc.(type) {
	case *CallE:
		if ms, ok := fc.e.contracts.Models[l.Fun]; ok && len(l.Args) == 1 {
			rn := "M." + l.Fun
			fc.region(st, rn, regionArraySort(sortByName(ms)))
			return rn, l.Args[0]
		}
		switch l.Fun {
		case "elems":
			rn, rs := elemsRegion(SU)
			fc.region(st, rn, rs)
			return rn, l.Args[0]
		case "mapof":
			// handled by caller through three regions; return dom as representative
			return "map.*", l.Args[0]
		}
	case *FieldE:
		return "field:" + l.Name, l.X
	case *Ident:
		if l.Name == "nothing" {
			return "", nil
		}
		if l.Name == "everything" {
			return "*", nil
		}
	}
	specFail("unsupported modifies location %s", loc)
	return "", nil
}

// ---------------------------------------------------------------------------

func (fc *fnCtx) execFrom(st *State, fr *frame, b *ssa.BasicBlock, i int) {
	for ; i < len(b.Instrs); i++ {
		if fc.aborted != "" {
			return
		}
		ins := b.Instrs[i]
		switch ins := ins.(type) {
		case *ssa.DebugRef:
			if !ins.IsAddr {
				if id, ok := ins.Expr.(interface{ String() string }); ok {
					_ = id
				}
				if obj := ins.Object(); obj != nil {
					if _, isVar := obj.(*types.Var); isVar {
						if v, ok := fc.tryVal(st, ins.X); ok {
							st.names[obj.Name()] = v
						}
					}
				}
			}
		case *ssa.If:
			c := fc.val(st, ins.Cond)
			fc.paths++
			if fc.paths > maxPaths {
				fc.aborted = fmt.Sprintf("more than %d paths", maxPaths)
				return
			}
			st2 := st.clone()
			st.pc = append(st.pc, c.T)
			st2.pc = append(st2.pc, not(c.T))
			fc.execBlock(st, fr, b.Succs[0], b)
			fc.execBlock(st2, fr, b.Succs[1], b)
			return
		case *ssa.Jump:
			fc.execBlock(st, fr, b.Succs[0], b)
			return
		case *ssa.Return:
			var res []Val
			for _, r := range ins.Results {
				res = append(res, fc.val(st, r))
			}
			fr.ret(st, res)
			return
		case *ssa.Panic:
			fr.pan(st, "explicit panic")
			return
		case *ssa.Call:
			// continuation style: the rest of the block runs inside k
			next := i + 1
			var movedBefore, movedAfter []*Clause
			if fr.spec == nil && fr.parent != nil && fc.top != nil && fc.top.spec != nil && len(fc.top.spec.OrphanHints) > 0 {
				movedBefore, movedAfter = fc.movedHints(fr, ins)
			}
			for hi, h := range movedBefore {
				sc := fc.specCtxFor(st, fc.top)
				sc.useNames = true
				fc.bindCallOperands(st, sc, ins)
				name := fc.oblName(fc.top, fmt.Sprintf("hint@before.call%d.%d", fr.callOrd[ins], hi+1))
				if g := fc.evalBoolClause(sc, h, name); g != "" {
					fc.emit(st, name, "hint", h.Text, clauseLoc(h), g, h.Tags)
					st.pc = append(st.pc, g)
				}
			}
			_ = movedAfter
			if fr.spec != nil {
				// hints to be established just before the call
				for _, h := range fr.spec.Hints[-fr.callOrd[ins]] {
					sc := fc.specCtxFor(st, fr)
					sc.useNames = true
					fc.bindCallOperands(st, sc, ins)
					name := fc.oblName(fr, fmt.Sprintf("hint@before.call%d.%d", fr.callOrd[ins], h.Ord))
					if g := fc.evalBoolClause(sc, h, name); g != "" {
						fc.emit(st, name, "hint", h.Text, clauseLoc(h), g, h.Tags)
						st.pc = append(st.pc, g)
					}
				}
			}
			preHeap, preNow := copyHeap(st.heap), st.now
			fc.doCall(st, fr, ins, func(st *State, res Val) {
				if nm := calleeName(ins.Common()); nm != "" && fr.parent == nil {
					if st.lastRes == nil {
						st.lastRes = map[string]Val{}
					}
					st.lastRes[nm] = res
				}
				if ins.Type() != nil {
					if tup, ok := ins.Type().(*types.Tuple); ok && tup.Len() == 0 {
						// no value
					} else {
						res.GT = ins.Type()
						st.env[ins] = res
					}
				}
				if fr.spec != nil {
					for _, h := range fr.spec.Hints[fr.callOrd[ins]] {
						sc := fc.specCtxFor(st, fr)
						sc.useNames = true
						sc.preHeap, sc.preNow = preHeap, preNow
						fc.bindCallOperands(st, sc, ins)
						name := fc.oblName(fr, fmt.Sprintf("hint@call%d.%d", fr.callOrd[ins], h.Ord))
						if g := fc.evalBoolClause(sc, h, name); g != "" {
							if h.Kind == "assumeat" {
								fc.e.warnings[fmt.Sprintf("assumption in %s after call %d: %s", fr.key, fr.callOrd[ins], h.Text)] = true
							} else {
								fc.emit(st, name, "hint", h.Text, clauseLoc(h), g, h.Tags)
							}
							st.pc = append(st.pc, g)
						}
					}
				}
				fc.execFrom(st, fr, b, next)
			})
			return
		default:
			cont := fc.execSimple(st, fr, ins, func(st *State) { fc.execFrom(st, fr, b, i+1) })
			if !cont {
				return
			}
		}
	}
}

// bindCallOperands makes the operands of the call a hint is attached to available as $recv, $arg1, $arg2, ...
func (fc *fnCtx) bindCallOperands(st *State, sc *specCtx, call *ssa.Call) {
	c := call.Common()
	var ops []ssa.Value
	if c.IsInvoke() {
		if v, ok := fc.tryVal(st, c.Value); ok {
			sc.vars["$recv"] = v
		}
		ops = c.Args
	} else if callee := c.StaticCallee(); callee != nil && callee.Signature.Recv() != nil && len(c.Args) > 0 {
		if v, ok := fc.tryVal(st, c.Args[0]); ok {
			sc.vars["$recv"] = v
		}
		ops = c.Args[1:]
	} else {
		ops = c.Args
	}
	for i, a := range ops {
		if v, ok := fc.tryVal(st, a); ok {
			sc.vars[fmt.Sprintf("$arg%d", i+1)] = v
		}
	}
}

func (fc *fnCtx) tryVal(st *State, v ssa.Value) (x Val, ok bool) {
	defer func() {
		if r := recover(); r != nil {
			if _, isT := r.(translateError); isT {
				ok = false
				return
			}
			panic(r)
		}
	}()
	return fc.val(st, v), true
}

// runtimeCheck handles an implicit runtime panic condition `bad`.
// In safe mode it is an obligation; otherwise an exceptional edge.
func (fc *fnCtx) runtimeCheck(st *State, fr *frame, ins ssa.Instruction, kind string, bad string) {
	if bad == "false" {
		return
	}
	if fc.safeMode {
		suffix := fmt.Sprintf("safe.%s@%s", kind, fc.instrLabel(fr, ins))
		if fr.spec != nil {
			if reason, ok := fr.spec.Trusts[suffix]; ok {
				fc.e.warnings[fmt.Sprintf("trusted runtime check %s.%s: %s", fr.key, suffix, reason)] = true
				st.pc = append(st.pc, not(bad))
				return
			}
		} else if fr.parent != nil && fc.top != nil && fc.top.spec != nil {
			// the trusted instruction may have moved into a contract-less helper executed in place: the trust of the
			// function under verification extends to a check of the same kind there
			for name, reason := range fc.top.spec.Trusts {
				if normName(name) == normName(suffix) {
					fc.e.warnings[fmt.Sprintf("trusted runtime check %s.%s (in helper %s): %s", fc.top.key, suffix, fr.key, reason)] = true
					st.pc = append(st.pc, not(bad))
					return
				}
			}
		}
		fc.emit(st, fc.oblName(fr, suffix), "safe."+kind, "no Go runtime panic ("+kind+")", fc.posOf(ins), not(bad), nil)
		st.pc = append(st.pc, not(bad))
		return
	}
	st2 := st.clone()
	st2.pc = append(st2.pc, bad)
	st2.trace = append(st2.trace, "runtime-panic:"+kind)
	fr.pan(st2, "runtime panic: "+kind)
	st.pc = append(st.pc, not(bad))
}

func (fc *fnCtx) instrLabel(fr *frame, ins ssa.Instruction) string {
	// stable label: block-relative ordinal of this kind of instruction in the function
	n := 0
	for _, b := range fr.fn.Blocks {
		for _, x := range b.Instrs {
			if fmt.Sprintf("%T", x) == fmt.Sprintf("%T", ins) {
				n++
			}
			if x == ins {
				return fmt.Sprintf("%s%d", strings.TrimPrefix(fmt.Sprintf("%T", ins), "*ssa."), n)
			}
		}
	}
	return "?"
}

func (fc *fnCtx) posOf(ins ssa.Instruction) string {
	p := ins.Pos()
	if !p.IsValid() {
		return ""
	}
	pos := fc.e.prog.Fset.Position(p)
	return fmt.Sprintf("%s:%d", pos.Filename, pos.Line)
}

// execSimple executes a non-branching instruction. Returns true to continue inline.
func (fc *fnCtx) execSimple(st *State, fr *frame, ins ssa.Instruction, k func(*State)) bool {
	switch ins := ins.(type) {
	case *ssa.Phi:
		// handled at block entry (entry block has none)
	case *ssa.BinOp:
		fc.binop(st, fr, ins)
	case *ssa.UnOp:
		fc.unop(st, fr, ins)
	case *ssa.Alloc:
		elem := ins.Type().(*types.Pointer).Elem()
		r := fc.newObject(st, ins.Name(), ins.Type())
		st.env[ins] = r
		if ins.Heap && ins.Comment != "" && ins.Comment != "complit" && ins.Comment != "new" && ins.Comment != "slicelit" && ins.Comment != "makeslice" && ins.Comment != "varargs" {
			// a source variable that lives in a heap cell (captured by a closure): in contracts its
			// name denotes the cell's current content
			st.names["&"+ins.Comment] = r
		}
		switch u := elem.Underlying().(type) {
		case *types.Struct:
			named, _ := derefNamed(ins.Type())
			for i := 0; i < u.NumFields(); i++ {
				f := u.Field(i)
				var rn string
				if named != nil {
					rn = fieldRegion(named.Origin(), f.Name())
				} else {
					rn = "F.anon." + f.Name()
				}
				fs := sortOfType(f.Type())
				if named != nil && fc.e.immutableFn(named, f.Name()) != "" {
					continue
				}
				cur := fc.region(st, rn, regionArraySort(fs))
				z := fc.zeroOf(st, f.Type())
				st.pc = append(st.pc, eq(sel(cur, r.T), z.T))
			}
			if named != nil {
				fc.trackObject(st, r, named)
				if ts := fc.e.typeSpecNamed(named); ts != nil && len(ts.ConstInvs) > 0 {
					for _, li := range fr.loops {
						if li.body[ins.Block()] {
							fc.unsupported("allocation of %s (a type with construction invariants) inside a loop", named.Obj().Name())
						}
					}
					st.cAllocs = append(st.cAllocs, constAlloc{ref: r.T, named: named, label: fc.instrLabel(fr, ins)})
				}
			}
		case *types.Array:
			// backing array for a slice literal: contents zero
		default:
			es := sortOfType(elem)
			rn, rs := cellRegion(es)
			cur := fc.region(st, rn, rs)
			z := fc.zeroOf(st, elem)
			st.pc = append(st.pc, eq(sel(cur, r.T), z.T))
		}
	case *ssa.FieldAddr:
		x := fc.val(st, ins.X)
		fc.runtimeCheck(st, fr, ins, "nil", eq(x.T, "nil"))
		named, ok := derefNamed(ins.X.Type())
		var f *types.Var
		var rn string
		if ok {
			f = named.Underlying().(*types.Struct).Field(ins.Field)
			rn = fieldRegion(named.Origin(), f.Name())
		} else {
			stt := ins.X.Type().Underlying().(*types.Pointer).Elem().Underlying().(*types.Struct)
			f = stt.Field(ins.Field)
			rn = "F.anon." + f.Name()
		}
		ad := &Addr{Kind: "field", Region: rn, Base: x.T, Sort: sortOfType(f.Type()), GT: f.Type()}
		if ok {
			if fn := fc.e.immutableFn(named, f.Name()); fn != "" {
				ad.Kind = "immutable"
				ad.Region = "u." + fn
			}
		}
		st.env[ins] = Val{S: SAddr, GT: ins.Type(), A: ad}
	case *ssa.IndexAddr:
		x := fc.val(st, ins.X)
		idx := fc.val(st, ins.Index)
		switch t := ins.X.Type().Underlying().(type) {
		case *types.Slice:
			fc.runtimeCheck(st, fr, ins, "index", fmt.Sprintf("(or (< %s 0) (>= %s (sl_len %s)))", idx.T, idx.T, x.T))
			es := sortOfType(t.Elem())
			rn, _ := elemsRegion(es)
			st.env[ins] = Val{S: SAddr, GT: ins.Type(), A: &Addr{Kind: "elem", Region: rn, Base: app("sl_arr", x.T), Idx: fmt.Sprintf("(+ (sl_off %s) %s)", x.T, idx.T), Sort: es, GT: t.Elem(), Slice: x.T, Rel: idx.T}}
		case *types.Pointer:
			arr := t.Elem().Underlying().(*types.Array)
			fc.runtimeCheck(st, fr, ins, "index", fmt.Sprintf("(or (< %s 0) (>= %s %d))", idx.T, idx.T, arr.Len()))
			es := sortOfType(arr.Elem())
			rn, _ := elemsRegion(es)
			st.env[ins] = Val{S: SAddr, GT: ins.Type(), A: &Addr{Kind: "elem", Region: rn, Base: x.T, Idx: idx.T, Sort: es, GT: arr.Elem()}}
		default:
			fc.unsupported("IndexAddr on %s", ins.X.Type())
		}
	case *ssa.Store:
		a := fc.val(st, ins.Addr)
		v := fc.val(st, ins.Val)
		fc.storeTo(st, fr, ins, a, v)
	case *ssa.MakeInterface:
		x := fc.val(st, ins.X)
		b := fc.box(st, x)
		b.GT = ins.Type()
		if x.S == SSlice {
			fc.trackSliceBox(st, b.T, x)
		}
		if x.S != SU || isConcrete(ins.X.Type()) {
			st.pc = append(st.pc, eq(app("dyntype", b.T), fc.typeTerm(st, ins.X.Type())))
			if x.S != SU {
				st.pc = append(st.pc, not(eq(b.T, "nil")))
			}
		}
		st.env[ins] = b
	case *ssa.ChangeInterface:
		x := fc.val(st, ins.X)
		x.GT = ins.Type()
		st.env[ins] = x
	case *ssa.ChangeType:
		x := fc.val(st, ins.X)
		x.GT = ins.Type()
		st.env[ins] = x
	case *ssa.Convert:
		fc.convert(st, ins)
	case *ssa.Slice:
		fc.sliceOp(st, fr, ins)
	case *ssa.MakeSlice:
		ln := fc.val(st, ins.Len)
		cp := fc.val(st, ins.Cap)
		fc.runtimeCheck(st, fr, ins, "make", fmt.Sprintf("(or (< %s 0) (> %s MAXLEN2) (< %s %s) (> %s MAXLEN2))", ln.T, ln.T, cp.T, ln.T, cp.T))
		arr := fc.newObject(st, "arr", nil)
		es := sortOfType(ins.Type().Underlying().(*types.Slice).Elem())
		rn, rs := elemsRegion(es)
		cur := fc.region(st, rn, rs)
		z := fc.zeroOf(st, ins.Type().Underlying().(*types.Slice).Elem())
		st.pc = append(st.pc, eq(sel(cur, arr.T), fmt.Sprintf("((as const (Array Int %s)) %s)", es.SMT(), z.T)))
		fc.define(st, ins, fmt.Sprintf("(mk_slice %s 0 %s %s)", arr.T, ln.T, cp.T))
	case *ssa.MakeMap:
		m := fc.newObject(st, "map", ins.Type())
		dom := fc.region(st, "map.dom", "(Array U (Array U Bool))")
		card := fc.region(st, "map.card", "(Array U Int)")
		st.pc = append(st.pc, eq(sel(dom, m.T), "((as const (Array U Bool)) false)"))
		st.pc = append(st.pc, eq(sel(card, m.T), "0"))
		st.env[ins] = m
	case *ssa.MakeChan:
		c := fc.newObject(st, "chan", ins.Type())
		sz := fc.val(st, ins.Size)
		capR := fc.region(st, "chan.cap", "(Array U Int)")
		lenR := fc.region(st, "chan.len", "(Array U Int)")
		clR := fc.region(st, "chan.closed", "(Array U Bool)")
		st.pc = append(st.pc, eq(sel(capR, c.T), sz.T), eq(sel(lenR, c.T), "0"), eq(sel(clR, c.T), "false"))
		st.env[ins] = c
	case *ssa.MakeClosure:
		c := fc.newObject(st, "closure", ins.Type())
		fn := ins.Fn.(*ssa.Function)
		st.pc = append(st.pc, eq(app("dyntype", c.T), fmt.Sprint(fc.e.typeID("closure:"+fc.e.keyOf(fn)))))
		c.GT = ins.Type()
		st.env[ins] = c
		var binds []Val
		for _, b := range ins.Bindings {
			binds = append(binds, fc.val(st, b))
		}
		if st.ghost == nil {
			st.ghost = map[string]string{}
		}
		fc.closures[c.T] = &closureInfo{fn: fn, binds: binds}
		if strings.HasSuffix(fn.Name(), "$bound") && len(binds) == 1 && binds[0].S == SU {
			// a method value: boundrecv(f) is the receiver whose state the function may use
			fc.declareFun(st, "boundrecv", "(U) U")
			st.pc = append(st.pc, eq(app("boundrecv", c.T), binds[0].T))
		}
	case *ssa.TypeAssert:
		fc.typeAssert(st, fr, ins)
	case *ssa.Extract:
		t := fc.val(st, ins.Tuple)
		if t.S != STuple || ins.Index >= len(t.Tup) {
			fc.unsupported("extract from non-tuple %s", ins.Tuple.Name())
		}
		v := t.Tup[ins.Index]
		v.GT = ins.Type()
		st.env[ins] = v
	case *ssa.Field:
		x := fc.val(st, ins.X)
		stt := ins.X.Type().Underlying().(*types.Struct)
		f := stt.Field(ins.Field)
		fn := "sfield." + sanitize(types.TypeString(ins.X.Type(), nil)) + "." + f.Name()
		fs := sortOfType(f.Type())
		fc.declareFun(st, fn, "(U) "+fs.SMT())
		st.env[ins] = Val{T: app(fn, x.T), S: fs, GT: f.Type()}
	case *ssa.Lookup:
		fc.lookup(st, fr, ins)
	case *ssa.MapUpdate:
		m := fc.val(st, ins.Map)
		k := fc.box(st, fc.val(st, ins.Key))
		v := fc.box(st, fc.val(st, ins.Value))
		fc.runtimeCheck(st, fr, ins, "nilmap", eq(m.T, "nil"))
		fc.checkMapGuard(st, fr, ins, m, true)
		fc.checkWrite(st, fr, fc.instrLabel(fr, ins), "map.dom", m.T)
		fc.mapStore(st, m.T, k.T, v.T)
	case *ssa.Range:
		fc.rangeInit(st, ins)
	case *ssa.Next:
		fc.rangeNext(st, ins)
	case *ssa.RunDefers:
		// deferred calls are executed by the frame's return/panic handlers
	case *ssa.Defer:
		if fr.parent != nil {
			fc.unsupported("defer inside an inlined function")
		}
		st.defers = append(st.defers, ins)
	case *ssa.Go:
		fc.goStmt(st, fr, ins)
	case *ssa.Send:
		fc.chanSend(st, fr, ins)
	default:
		fc.unsupported("instruction %T (%s)", ins, ins)
	}
	return true
}

type deferKey struct{ d *ssa.Defer }

func (deferKey) Name() string                  { return "defer" }
func (deferKey) String() string                { return "defer" }
func (deferKey) Type() types.Type              { return nil }
func (deferKey) Parent() *ssa.Function         { return nil }
func (deferKey) Referrers() *[]ssa.Instruction { return nil }
func (deferKey) Pos() token.Pos                { return token.NoPos }

type closureInfo struct {
	fn    *ssa.Function
	binds []Val
}

func isConcrete(t types.Type) bool {
	switch t.Underlying().(type) {
	case *types.Interface:
		return false
	}
	if _, ok := t.(*types.TypeParam); ok {
		return false
	}
	return true
}

func typeKey(t types.Type) string {
	return types.TypeString(t, func(p *types.Package) string { return p.Name() })
}

func (fc *fnCtx) declareFun(st *State, name, sig string) {
	d := fmt.Sprintf("(declare-fun %s %s)", name, sig)
	for _, x := range st.decls {
		if x == d {
			return
		}
	}
	st.decls = append(st.decls, d)
}

func (fc *fnCtx) newObject(st *State, base string, t types.Type) Val {
	n := fc.declare(st, base, "U")
	st.pc = append(st.pc, fmt.Sprintf("(and (not (= %s nil)) (= (atime %s) %s))", n, n, st.now))
	nn := fc.declare(st, "now", "Int")
	st.pc = append(st.pc, fmt.Sprintf("(= %s (+ %s 1))", nn, st.now))
	st.now = nn
	return Val{T: n, S: SU, GT: t}
}

func (fc *fnCtx) zeroOf(st *State, t types.Type) Val {
	c := ssa.NewConst(nil, t)
	return fc.constVal(st, c)
}

func (fc *fnCtx) trackObject(st *State, r Val, named *types.Named) {
	pkg := ""
	if named.Obj().Pkg() != nil {
		pkg = named.Obj().Pkg().Name()
	}
	ts := fc.e.contracts.Types[pkg+"."+named.Obj().Name()]
	if ts == nil || len(ts.Models) == 0 {
		return
	}
	ref := r.T
	st.tracked = append(st.tracked, tracked{ref: ref, expand: func(sc *specCtx, m string) (Val, bool) {
		return sc.expandModel(named, m, Val{T: ref, S: SU, GT: types.NewPointer(named)})
	}})
}

func (fc *fnCtx) trackSliceBox(st *State, boxed string, slice Val) {
	for _, t := range st.tracked {
		if t.ref == boxed {
			return
		}
	}
	if sl, ok := slice.GT.Underlying().(*types.Slice); !ok || sortOfType(sl.Elem()) != SU {
		return
	}
	st.tracked = append(st.tracked, tracked{ref: boxed, expand: func(sc *specCtx, m string) (Val, bool) {
		if m != "view" {
			return Val{}, false
		}
		return sc.viewOfSlice(slice), true
	}})
}

// loads and stores -----------------------------------------------------------

func (fc *fnCtx) loadFrom(st *State, a Val, t types.Type) Val {
	if a.A != nil {
		ad := a.A
		switch ad.Kind {
		case "immutable":
			fc.useDecl(st, ad.Region)
			return Val{T: app(ad.Region, ad.Base), S: ad.Sort, GT: ad.GT}
		case "field":
			r := fc.region(st, ad.Region, regionArraySort(ad.Sort))
			return Val{T: sel(r, ad.Base), S: ad.Sort, GT: ad.GT}
		case "elem":
			_, rs := elemsRegion(ad.Sort)
			r := fc.region(st, ad.Region, rs)
			if ad.Sort == SInt && ad.Slice != "" {
				st.pc = append(st.pc, eq(sel(sel(r, ad.Base), ad.Idx), app("sl_ielem", sel(r, ad.Base), app("sl_off", ad.Slice), ad.Rel)))
			}
			if ad.Sort == SU && ad.Slice != "" {
				// the same element seen through the sequence view (creates the term specifications talk about)
				st.pc = append(st.pc, eq(sel(sel(r, ad.Base), ad.Idx), app("sq_at", app("sq_of", sel(r, ad.Base), app("sl_off", ad.Slice), app("sl_len", ad.Slice)), ad.Rel)))
			}
			return Val{T: sel(sel(r, ad.Base), ad.Idx), S: ad.Sort, GT: ad.GT}
		case "global":
			r := fc.region(st, ad.Region, ad.Sort.SMT())
			if fc.e.contracts.GlobalNonNil[strings.TrimPrefix(ad.Region, "global.")] && ad.Sort == SU {
				st.pc = append(st.pc, not(eq(r, "nil")))
			}
			return Val{T: r, S: ad.Sort, GT: ad.GT}
		}
	}
	// pointer value: cell
	es := sortOfType(t)
	rn, rs := cellRegion(es)
	r := fc.region(st, rn, rs)
	return Val{T: sel(r, a.T), S: es, GT: t}
}

func (fc *fnCtx) storeTo(st *State, fr *frame, ins ssa.Instruction, a Val, v Val) {
	if a.A != nil {
		ad := a.A
		switch ad.Kind {
		case "immutable":
			// an immutable field is written exactly once, on an object allocated by this function
			if v.S != ad.Sort {
				v = fc.coerce(st, v, ad.Sort)
			}
			fc.useDecl(st, ad.Region)
			fc.emit(st, fc.oblName(fr, "immutable@"+fc.instrLabel(fr, ins)), "immutable", "an immutable field is only initialised on a freshly allocated object", fc.posOf(ins),
				fmt.Sprintf("(>= (atime %s) %s)", ad.Base, fc.top.entryT), nil)
			st.pc = append(st.pc, eq(app(ad.Region, ad.Base), v.T))
			return
		case "field":
			if v.S != ad.Sort {
				v = fc.coerce(st, v, ad.Sort)
			}
			r := fc.region(st, ad.Region, regionArraySort(ad.Sort))
			fc.checkGuarded(st, fr, ins, ad, true)
			fc.checkWrite(st, fr, fc.instrLabel(fr, ins), ad.Region, ad.Base)
			fc.setRegion(st, ad.Region, regionArraySort(ad.Sort), store(r, ad.Base, v.T))
			return
		case "elem":
			if v.S != ad.Sort {
				v = fc.coerce(st, v, ad.Sort)
			}
			_, rs := elemsRegion(ad.Sort)
			r := fc.region(st, ad.Region, rs)
			fc.checkWrite(st, fr, fc.instrLabel(fr, ins), ad.Region, ad.Base)
			fc.setRegion(st, ad.Region, rs, store(r, ad.Base, store(sel(r, ad.Base), ad.Idx, v.T)))
			return
		case "global":
			fc.checkGlobalAccess(st, fr, ins, ad, true)
			fc.region(st, ad.Region, ad.Sort.SMT())
			fc.setRegion(st, ad.Region, ad.Sort.SMT(), v.T)
			return
		}
	}
	rn, rs := cellRegion(v.S)
	r := fc.region(st, rn, rs)
	fc.setRegion(st, rn, rs, store(r, a.T, v.T))
}

// useDecl makes sure a declared spec function is declared in this query (axiomText does it by name scan).
func (fc *fnCtx) useDecl(st *State, name string) {}

func (fc *fnCtx) coerce(st *State, v Val, s Sort) Val {
	if v.S == s {
		return v
	}
	if s == SU {
		return fc.box(st, v)
	}
	if v.S == SU {
		return Val{T: app("unbox_"+s.Short(), v.T), S: s, GT: v.GT}
	}
	fc.unsupported("cannot coerce %s to %s", v.S.Short(), s.Short())
	return v
}

func (fc *fnCtx) unop(st *State, fr *frame, ins *ssa.UnOp) {
	x := fc.val(st, ins.X)
	switch ins.Op {
	case token.MUL:
		if x.A == nil {
			fc.runtimeCheck(st, fr, ins, "nil", eq(x.T, "nil"))
		}
		fieldMutex := ""
		if x.A != nil && x.A.Kind == "field" {
			fieldMutex = fc.checkGuarded(st, fr, ins, x.A, false)
		}
		gmutex := ""
		if x.A != nil && x.A.Kind == "global" {
			gmutex = fc.checkGlobalAccess(st, fr, ins, x.A, false)
		}
		v := fc.loadFrom(st, x, ins.Type())
		if gmutex != "" && v.S == SU {
			if st.ghost == nil {
				st.ghost = map[string]string{}
			}
			st.ghost["guard:"+v.T] = gmutex
		}
		if fieldMutex != "" && v.S == SU {
			if _, isChan := ins.Type().Underlying().(*types.Chan); !isChan {
				st.ghost["objguard:"+v.T] = fieldMutex
			}
		}
		d := fc.define(st, ins, v.T)
		if g, ok := st.ghost["guard:"+v.T]; ok {
			st.ghost["guard:"+d.T] = g
		}
		if g, ok := st.ghost["objguard:"+v.T]; ok {
			st.ghost["objguard:"+d.T] = g
		}
		fc.assumeTyped(st, d)
	case token.NOT:
		fc.define(st, ins, not(x.T))
	case token.SUB:
		switch x.S {
		case SInt:
			fc.define(st, ins, fc.wrap(ins.Type(), "(- "+x.T+")"))
		case SF64:
			fc.define(st, ins, app("fp.neg", x.T))
		default:
			fc.unsupported("negation of %s", x.S.Short())
		}
	case token.ARROW:
		fc.chanRecv(st, fr, ins)
	default:
		fc.unsupported("unary operator %s", ins.Op)
	}
}

func (fc *fnCtx) wrap(t types.Type, term string) string {
	if w := wrapFn(t); w != "" {
		return app(w, term)
	}
	return term
}

func (fc *fnCtx) binop(st *State, fr *frame, ins *ssa.BinOp) {
	x := fc.val(st, ins.X)
	y := fc.val(st, ins.Y)
	if x.S != y.S {
		// nil comparisons of slices etc.
		if x.S == SSlice && y.S == SU {
			y = Val{T: "nil_slice", S: SSlice}
		} else if y.S == SSlice && x.S == SU {
			x = Val{T: "nil_slice", S: SSlice}
		} else if x.S == SU {
			y = fc.box(st, y)
		} else if y.S == SU {
			x = fc.box(st, x)
		}
	}
	switch x.S {
	case SInt:
		switch ins.Op {
		case token.ADD:
			fc.define(st, ins, fc.wrap(ins.Type(), app("+", x.T, y.T)))
		case token.SUB:
			fc.define(st, ins, fc.wrap(ins.Type(), app("-", x.T, y.T)))
		case token.MUL:
			fc.define(st, ins, fc.wrap(ins.Type(), app("*", x.T, y.T)))
		case token.QUO:
			fc.runtimeCheck(st, fr, ins, "div", eq(y.T, "0"))
			fc.define(st, ins, fc.wrap(ins.Type(), app("go_quo", x.T, y.T)))
		case token.REM:
			fc.runtimeCheck(st, fr, ins, "div", eq(y.T, "0"))
			fc.define(st, ins, app("go_rem", x.T, y.T))
		case token.EQL:
			fc.define(st, ins, eq(x.T, y.T))
		case token.NEQ:
			fc.define(st, ins, not(eq(x.T, y.T)))
		case token.LSS:
			fc.define(st, ins, app("<", x.T, y.T))
		case token.LEQ:
			fc.define(st, ins, app("<=", x.T, y.T))
		case token.GTR:
			fc.define(st, ins, app(">", x.T, y.T))
		case token.GEQ:
			fc.define(st, ins, app(">=", x.T, y.T))
		default:
			fc.unsupported("integer operator %s", ins.Op)
		}
	case SBool:
		switch ins.Op {
		case token.EQL:
			fc.define(st, ins, eq(x.T, y.T))
		case token.NEQ:
			fc.define(st, ins, not(eq(x.T, y.T)))
		case token.AND:
			fc.define(st, ins, and(x.T, y.T))
		case token.OR:
			fc.define(st, ins, or(x.T, y.T))
		default:
			fc.unsupported("boolean operator %s", ins.Op)
		}
	case SF64:
		ops := map[token.Token]string{token.LSS: "fp.lt", token.LEQ: "fp.leq", token.GTR: "fp.gt", token.GEQ: "fp.geq", token.EQL: "fp.eq"}
		if op, ok := ops[ins.Op]; ok {
			fc.define(st, ins, app(op, x.T, y.T))
		} else if ins.Op == token.NEQ {
			fc.define(st, ins, not(app("fp.eq", x.T, y.T)))
		} else {
			fc.unsupported("float operator %s", ins.Op)
		}
	case SStr:
		switch ins.Op {
		case token.EQL:
			fc.define(st, ins, eq(x.T, y.T))
		case token.NEQ:
			fc.define(st, ins, not(eq(x.T, y.T)))
		case token.LSS:
			fc.define(st, ins, app("str_lt", x.T, y.T))
		case token.GTR:
			fc.define(st, ins, app("str_lt", y.T, x.T))
		case token.LEQ:
			fc.define(st, ins, not(app("str_lt", y.T, x.T)))
		case token.GEQ:
			fc.define(st, ins, not(app("str_lt", x.T, y.T)))
		case token.ADD:
			d := fc.define(st, ins, app("str_concat", x.T, y.T))
			st.pc = append(st.pc, eq(app("str_len", d.T), app("+", app("str_len", x.T), app("str_len", y.T))))
		default:
			fc.unsupported("string operator %s", ins.Op)
		}
	case SC128:
		switch ins.Op {
		case token.EQL:
			fc.define(st, ins, app("cplx_goeq", x.T, y.T))
		case token.NEQ:
			fc.define(st, ins, not(app("cplx_goeq", x.T, y.T)))
		default:
			fc.unsupported("complex operator %s", ins.Op)
		}
	case SU, SSlice:
		switch ins.Op {
		case token.EQL:
			if x.S == SSlice {
				// only comparison with nil is legal for slices
				other := y
				if x.T == "nil_slice" {
					other = y
				} else {
					other = x
				}
				fc.define(st, ins, eq(app("sl_arr", other.T), "nil"))
				return
			}
			fc.define(st, ins, fc.goEq(st, x, y))
		case token.NEQ:
			if x.S == SSlice {
				other := x
				if x.T == "nil_slice" {
					other = y
				}
				fc.define(st, ins, not(eq(app("sl_arr", other.T), "nil")))
				return
			}
			fc.define(st, ins, not(fc.goEq(st, x, y)))
		default:
			fc.unsupported("operator %s on references", ins.Op)
		}
	default:
		fc.unsupported("binary operator %s on sort %s", ins.Op, x.S.Short())
	}
}

// goEq models Go's == on interface / pointer / type-parameter values.
func (fc *fnCtx) goEq(st *State, x, y Val) string {
	return eq(x.T, y.T)
}

func (fc *fnCtx) convert(st *State, ins *ssa.Convert) {
	x := fc.val(st, ins.X)
	from, to := ins.X.Type(), ins.Type()
	sf, stt := sortOfType(from), sortOfType(to)
	switch {
	case sf == SInt && stt == SInt:
		fc.define(st, ins, fc.wrap(to, x.T))
	case sf == stt && sf != SU:
		v := x
		v.GT = to
		st.env[ins] = v
	default:
		fn := "conv." + sanitize(typeKey(from)) + ".." + sanitize(typeKey(to))
		fc.declareFun(st, fn, "("+sf.SMT()+") "+stt.SMT())
		d := fc.define(st, ins, app(fn, x.T))
		if !(sf == SStr && stt == SSlice) {
			fc.assumeTyped(st, d)
		}
		if sf == SStr && stt == SSlice {
			// []rune(s): a fresh slice with one element per rune
			arr := fc.newObject(st, "arr", nil)
			st.pc = append(st.pc, fmt.Sprintf("(and (= (sl_arr %s) %s) (= (sl_off %s) 0) (= (sl_cap %s) (sl_len %s)) (<= 0 (sl_len %s)) (<= (sl_len %s) (str_len %s)) (<= (sl_len %s) MAXLEN) (= (sl_len %s) (str_runes %s)))", d.T, arr.T, d.T, d.T, d.T, d.T, d.T, x.T, d.T, d.T, x.T))
		}
		if sf == SSlice && stt == SStr {
			// string(runes): one rune per element
			st.pc = append(st.pc, fmt.Sprintf("(= (str_runes %s) (sl_len %s))", d.T, x.T))
		}
	}
}

func (fc *fnCtx) sliceOp(st *State, fr *frame, ins *ssa.Slice) {
	x := fc.val(st, ins.X)
	switch ins.X.Type().Underlying().(type) {
	case *types.Slice:
		lo, hi := "0", app("sl_len", x.T)
		if ins.Low != nil {
			lo = fc.val(st, ins.Low).T
		}
		if ins.High != nil {
			hi = fc.val(st, ins.High).T
		}
		mx := app("sl_cap", x.T)
		if ins.Max != nil {
			mx = fc.val(st, ins.Max).T
		}
		fc.runtimeCheck(st, fr, ins, "slice", fmt.Sprintf("(or (< %s 0) (> %s %s) (> %s %s) (> %s (sl_cap %s)))", lo, lo, hi, hi, mx, mx, x.T))
		fc.define(st, ins, fmt.Sprintf("(mk_slice (sl_arr %s) (+ (sl_off %s) %s) (- %s %s) (- %s %s))", x.T, x.T, lo, hi, lo, mx, lo))
	case *types.Pointer:
		// slicing an array allocation (varargs / composite literal)
		arr := ins.X.Type().Underlying().(*types.Pointer).Elem().Underlying().(*types.Array)
		lo, hi := "0", fmt.Sprint(arr.Len())
		if ins.Low != nil {
			lo = fc.val(st, ins.Low).T
		}
		if ins.High != nil {
			hi = fc.val(st, ins.High).T
		}
		fc.define(st, ins, fmt.Sprintf("(mk_slice %s %s (- %s %s) (- %d %s))", x.T, lo, hi, lo, arr.Len(), lo))
	case *types.Basic:
		// string slicing
		lo, hi := "0", app("str_len", x.T)
		if ins.Low != nil {
			lo = fc.val(st, ins.Low).T
		}
		if ins.High != nil {
			hi = fc.val(st, ins.High).T
		}
		fc.runtimeCheck(st, fr, ins, "slice", fmt.Sprintf("(or (< %s 0) (> %s %s) (> %s (str_len %s)))", lo, lo, hi, hi, x.T))
		d := fc.define(st, ins, app("str_sub", x.T, lo, hi))
		st.pc = append(st.pc, eq(app("str_len", d.T), app("-", hi, lo)))
	default:
		fc.unsupported("slice of %s", ins.X.Type())
	}
}

func (fc *fnCtx) typeAssert(st *State, fr *frame, ins *ssa.TypeAssert) {
	x := fc.val(st, ins.X)
	target := ins.AssertedType
	var okT string
	if types.IsInterface(target) && !isTypeParam(target) && types.Identical(ins.X.Type(), target) {
		okT = not(eq(x.T, "nil"))
	} else if types.IsInterface(target) && !isTypeParam(target) {
		// interface target: succeeds iff non-nil and dynamic type implements it
		if emptyIface(target) {
			okT = not(eq(x.T, "nil"))
		} else {
			okT = and(not(eq(x.T, "nil")), app("implements", app("dyntype", x.T), fmt.Sprint(fc.e.typeID("iface:"+typeKey(target)))))
		}
	} else {
		okT = and(not(eq(x.T, "nil")), eq(app("dyntype", x.T), fc.typeTerm(st, target)))
	}
	okN := fc.declare(st, "ok", "Bool")
	st.pc = append(st.pc, eq(okN, okT))
	val := fc.unbox(st, x, target)
	if ins.CommaOk {
		z := fc.zeroOf(st, target)
		v := Val{T: fmt.Sprintf("(ite %s %s %s)", okN, val.T, z.T), S: val.S, GT: target}
		st.env[ins] = Val{S: STuple, Tup: []Val{v, {T: okN, S: SBool}}}
		return
	}
	fc.runtimeCheck(st, fr, ins, "assert", not(okN))
	val.GT = target
	st.env[ins] = val
}

func isTypeParam(t types.Type) bool {
	_, ok := t.(*types.TypeParam)
	return ok
}

func emptyIface(t types.Type) bool {
	i, ok := t.Underlying().(*types.Interface)
	return ok && i.NumMethods() == 0
}

// typeTerm is the dynamic-type tag of a static type. Type parameters are symbolic integers
// (two type parameters may denote the same type), composite types are built from their parts.
// mapTag: the dynamic-type tag of map[K]V — composite, disjoint from slice (≡1 mod 4) and pointer (≡2) tags
func (fc *fnCtx) mapTag(st *State, k, v string) string {
	fc.declareFun(st, "tid_map", "(Int Int) Int")
	t := app("tid_map", k, v)
	fact := fmt.Sprintf("(and (> %s 1000000) (= (mod %s 4) 3))", t, t)
	for _, x := range st.pc {
		if x == fact {
			return t
		}
	}
	st.pc = append(st.pc, fact)
	return t
}

func (fc *fnCtx) typeTerm(st *State, t types.Type) string {
	switch x := t.(type) {
	case *types.TypeParam:
		n := "tid." + sanitize(x.Obj().Name())
		d := fmt.Sprintf("(declare-const %s Int)", n)
		found := false
		for _, y := range st.decls {
			if y == d {
				found = true
				break
			}
		}
		if !found {
			st.decls = append(st.decls, d)
			st.pc = append(st.pc, fmt.Sprintf("(>= %s 1)", n))
		}
		return n
	case *types.Slice:
		// composite tags are injective in their parts and disjoint from the tags of basic and named types
		return fmt.Sprintf("(+ 1000001 (* 4 %s))", fc.typeTerm(st, x.Elem()))
	case *types.Pointer:
		return fmt.Sprintf("(+ 1000002 (* 4 %s))", fc.typeTerm(st, x.Elem()))
	case *types.Map:
		return fc.mapTag(st, fc.typeTerm(st, x.Key()), fc.typeTerm(st, x.Elem()))
	case *types.Named:
		if x.TypeArgs() != nil && x.TypeArgs().Len() > 0 {
			fn := "tid_gen." + sanitize(x.Obj().Name())
			var as, sig []string
			for i := 0; i < x.TypeArgs().Len(); i++ {
				as = append(as, fc.typeTerm(st, x.TypeArgs().At(i)))
				sig = append(sig, "Int")
			}
			fc.declareFun(st, fn, "("+strings.Join(sig, " ")+") Int")
			t := app(fn, as...)
			// tags of instantiated generic types: above the basic tags, disjoint from slice/pointer/map tags
			fact := fmt.Sprintf("(and (> %s 1000000) (= (mod %s 4) 0))", t, t)
			have := false
			for _, x := range st.pc {
				if x == fact {
					have = true
					break
				}
			}
			if !have {
				st.pc = append(st.pc, fact)
			}
			return t
		}
	}
	return fmt.Sprint(fc.e.typeID(typeKey(t)))
}
