package main

import (
	"fmt"
	"go/types"
	"strings"

	"golang.org/x/tools/go/ssa"
)

func (fc *fnCtx) callArgs(st *State, c *ssa.CallCommon) []Val {
	var args []Val
	for _, a := range c.Args {
		v := fc.val(st, a)
		if v.S == SAddr && v.T != "" {
			// an address that escapes into a call is an object reference for the callee
			v = Val{T: v.T, S: SU, GT: v.GT, A: v.A}
		}
		args = append(args, v)
	}
	return args
}

// ifaceMethodOwner returns the name of the interface that declares method m.
func ifaceMethodOwner(m *types.Func) string {
	m = m.Origin()
	sig := m.Type().(*types.Signature)
	if sig.Recv() == nil {
		return ""
	}
	rt := sig.Recv().Type()
	if n, ok := rt.(*types.Named); ok {
		return n.Obj().Name()
	}
	return ""
}

func namedName(t types.Type) (pkg, name string) {
	if p, ok := t.(*types.Pointer); ok {
		t = p.Elem()
	}
	if n, ok := t.(*types.Named); ok {
		if n.Obj().Pkg() != nil {
			pkg = n.Obj().Pkg().Name()
		}
		return pkg, n.Obj().Name()
	}
	return "", ""
}

// lookupSpec finds the contract that governs a call site (no evaluation).
func (fc *fnCtx) lookupSpec(call ssa.CallInstruction) *effSpec {
	c := call.Common()
	if c.IsInvoke() {
		pkg, static := namedName(c.Value.Type())
		owner := ifaceMethodOwner(c.Method)
		ownerPkg := pkg
		if c.Method.Pkg() != nil {
			ownerPkg = c.Method.Pkg().Name()
		}
		for _, k := range []string{pkg + "." + static + "." + c.Method.Name(), ownerPkg + "." + owner + "." + c.Method.Name()} {
			if fs := fc.e.contracts.Funcs[k]; fs != nil {
				return fc.e.effective(fs, k)
			}
		}
		return nil
	}
	if callee := c.StaticCallee(); callee != nil {
		k := fc.e.keyOf(callee)
		if fs := fc.e.contracts.Funcs[k]; fs != nil && !fs.Flags["inline"] {
			return fc.e.effective(fs, k)
		}
		return nil
	}
	pkg, name := namedName(c.Value.Type())
	if name != "" {
		k := pkg + "." + name + ".call"
		if fs := fc.e.contracts.Funcs[k]; fs != nil {
			return fc.e.effective(fs, k)
		}
	}
	return nil
}

// calleeSpec finds the contract that governs a call site and evaluates receiver and arguments.
func (fc *fnCtx) calleeSpec(st *State, fr *frame, call ssa.CallInstruction) (spec *effSpec, recv *Val, args []Val, resT []types.Type) {
	c := call.Common()
	sig := c.Signature()
	for i := 0; i < sig.Results().Len(); i++ {
		resT = append(resT, sig.Results().At(i).Type())
	}
	spec = fc.lookupSpec(call)
	if spec != nil {
		fc.e.usedSpecs[spec.key] = true
	}
	if c.IsInvoke() {
		r := fc.val(st, c.Value)
		recv = &r
		args = fc.callArgs(st, c)
		return
	}
	if callee := c.StaticCallee(); callee != nil {
		all := fc.callArgs(st, c)
		if callee.Signature.Recv() != nil && len(all) > 0 {
			recv = &all[0]
			args = all[1:]
		} else {
			args = all
		}
		return
	}
	args = fc.callArgs(st, c)
	fv := fc.val(st, c.Value)
	recv = &fv
	return
}

// effective merges a function contract with the interface contracts it implements.
func (e *Engine) effective(fs *FuncSpec, key string) *effSpec {
	es := &effSpec{key: key, flags: map[string]bool{}, props: fs.Props}
	add := func(s *FuncSpec, params []string) {
		for _, c := range s.Lets {
			es.lets = append(es.lets, effClause{c, s, params})
		}
		for _, c := range s.Requires {
			es.requires = append(es.requires, effClause{c, s, params})
		}
		for _, c := range s.Assumes {
			es.assumes = append(es.assumes, effClause{c, s, params})
		}
		for _, c := range s.Defines {
			es.defines = append(es.defines, effClause{c, s, params})
		}
		for _, c := range s.Ensures {
			es.ensures = append(es.ensures, effClause{c, s, params})
		}
		for _, c := range s.XEnsures {
			es.xensures = append(es.xensures, effClause{c, s, params})
		}
		for _, c := range s.Modifies {
			es.modifies = append(es.modifies, effClause{c, s, params})
		}
		for f := range s.Flags {
			es.flags[f] = true
		}
		if s.Decreases != nil && es.decr == nil {
			es.decr = &effClause{s.Decreases, s, params}
		}
	}
	for _, ik := range fs.Implements {
		full := ik
		if !strings.Contains(ik, ".") || strings.Count(ik, ".") == 1 {
			full = fs.Pkg + "." + ik
		}
		is := e.contracts.Funcs[full]
		if is == nil {
			// try other packages
			for k, v := range e.contracts.Funcs {
				if strings.HasSuffix(k, "."+ik) && v.IsIface {
					is = v
					full = k
					break
				}
			}
		}
		if is == nil {
			e.warnings[fmt.Sprintf("%s implements unknown contract %s", key, ik)] = true
			continue
		}
		add(is, e.paramNames(full, is))
	}
	add(fs, e.paramNames(key, fs))
	if !fs.IsIface {
		for _, c := range fs.Modifies {
			es.ownMod = append(es.ownMod, effClause{c, fs, e.paramNames(key, fs)})
		}
	}
	return es
}

// paramNames returns the parameter names of the signature a contract is written against.
func (e *Engine) paramNames(key string, fs *FuncSpec) []string {
	if !fs.IsIface {
		if f := e.funcs[key]; f != nil {
			var ns []string
			for i, p := range f.Params {
				if i == 0 && f.Signature.Recv() != nil {
					continue
				}
				ns = append(ns, p.Name())
			}
			// a closure's captured variables follow its parameters
			for _, fv := range f.FreeVars {
				ns = append(ns, fv.Name())
			}
			return ns
		}
		if sig := e.externalSig(key); sig != nil {
			var ns []string
			for i := 0; i < sig.Params().Len(); i++ {
				ns = append(ns, sig.Params().At(i).Name())
			}
			return ns
		}
		return nil
	}
	// pkg.Iface.Method
	parts := strings.Split(key, ".")
	if len(parts) != 3 {
		return nil
	}
	named := e.typeByKey[parts[0]+"."+parts[1]]
	if named == nil {
		return nil
	}
	var sig *types.Signature
	switch u := named.Underlying().(type) {
	case *types.Interface:
		for i := 0; i < u.NumMethods(); i++ {
			if u.Method(i).Name() == parts[2] {
				sig = u.Method(i).Type().(*types.Signature)
			}
		}
	case *types.Signature:
		sig = u
	}
	if sig == nil {
		return nil
	}
	var ns []string
	for i := 0; i < sig.Params().Len(); i++ {
		ns = append(ns, sig.Params().At(i).Name())
	}
	return ns
}

func (e *Engine) externalSig(key string) *types.Signature { return nil }

// calleeCtx builds the evaluation context of a contract at a call site.
func (fc *fnCtx) calleeCtx(st *State, spec *effSpec, params []string, recv *Val, args []Val, res []Val) *specCtx {
	sc := &specCtx{fc: fc, st: st, heap: st.heap, now: st.now, vars: map[string]Val{}, params: map[string]Val{}, result: res}
	if recv != nil && recv.GT != nil {
		sc.tparamOf = typeArgMap(recv.GT)
	}
	if i := strings.Index(spec.key, "."); i >= 0 {
		sc.pkg = spec.key[:i]
	}
	if recv != nil {
		sc.vars["this"] = *recv
	}
	for i, p := range params {
		if i < len(args) && p != "" && p != "_" {
			sc.params[p] = args[i]
		}
	}
	for i, a := range args {
		sc.params[fmt.Sprintf("$%d", i+1)] = a
	}
	return sc
}

func (fc *fnCtx) doCall(st *State, fr *frame, call *ssa.Call, k func(*State, Val)) {
	c := call.Common()
	site := fmt.Sprintf("call%d", fr.callOrd[call])
	st.trace = append(st.trace, site)
	// builtins
	if b, ok := c.Value.(*ssa.Builtin); ok && !c.IsInvoke() {
		fc.builtin(st, fr, call, b, k)
		return
	}
	if c.IsInvoke() {
		r := fc.val(st, c.Value)
		fc.runtimeCheck(st, fr, call, "nil", eq(r.T, "nil"))
	}
	// bound-method closures: v.ranker_ etc. are handled through RankingFunction.call
	spec, recv, args, resT := fc.calleeSpec(st, fr, call)
	if recv != nil {
		fc.checkObjGuard(st, fr, call, *recv)
	}
	if spec != nil {
		if spec.key == "(*sync.Mutex).Lock" && recv != nil {
			if st.ghost == nil {
				st.ghost = map[string]string{}
			}
			st.ghost["lockseen:"+recv.T] = recv.T
		}
		if fc.interf && spec.key == "(*sync.Mutex).Unlock" {
			fc.lockInvariant(st, fr, call.Common(), site, true)
		}
		fc.applySpec(st, fr, site, spec, recv, args, resT, func(st *State, res []Val) {
			if fc.interf && spec.key == "(*sync.Mutex).Lock" {
				fc.lockInvariant(st, fr, call.Common(), site, false)
			}
			k(st, packResults(res))
		})
		return
	}
	if callee := c.StaticCallee(); callee != nil {
		if mc, ok := c.Value.(*ssa.MakeClosure); ok {
			var binds []Val
			for _, b := range mc.Bindings {
				binds = append(binds, fc.val(st, b))
			}
			fc.inlineClosure(st, fr, site, &closureInfo{fn: callee, binds: binds}, args, k)
			return
		}
		if fc.e.inRepo(callee) && len(originOf(callee).Blocks) > 0 {
			fc.inline(st, fr, site, originOf(callee), recv, args, k)
			return
		}
		// wrappers/thunks synthesized by go/ssa
		if callee.Synthetic != "" && len(callee.Blocks) > 0 && fr.depth < maxInlineDepth {
			fc.inline(st, fr, site, callee, recv, args, k)
			return
		}
		key := fc.e.keyOf(callee)
		fc.e.externals[key] = true
		fc.external(st, fr, site, key, resT, k)
		return
	}
	if c.IsInvoke() {
		_, static := namedName(c.Value.Type())
		key := static + "." + c.Method.Name()
		fc.e.externals["interface method without contract: "+key] = true
		fc.external(st, fr, site, key, resT, k)
		return
	}
	// dynamic call: closure known in this path?
	fv := fc.val(st, c.Value)
	if ci, ok := fc.closures[fv.T]; ok && fr.depth < maxInlineDepth {
		fc.inlineClosure(st, fr, site, ci, args, k)
		return
	}
	fc.e.externals["dynamic call of "+typeKey(c.Value.Type())] = true
	fc.external(st, fr, site, "dynamic", resT, k)
}

func packResults(res []Val) Val {
	switch len(res) {
	case 0:
		return Val{S: STuple}
	case 1:
		return res[0]
	}
	return Val{S: STuple, Tup: res}
}

// external: an unmodelled callee: result havoc, may panic, writes nothing of ours.
func (fc *fnCtx) external(st *State, fr *frame, site, key string, resT []types.Type, k func(*State, Val)) {
	if !fc.e.noPanicExternal(key) {
		st2 := st.clone()
		st2.trace = append(st2.trace, "panic-in:"+key)
		fr.pan(st2, "panic in external "+key)
	}
	n := fc.declare(st, "now", "Int")
	st.pc = append(st.pc, fmt.Sprintf("(>= %s %s)", n, st.now))
	st.now = n
	var res []Val
	for i, t := range resT {
		res = append(res, fc.freshVal(st, fmt.Sprintf("ext%d", i), t))
	}
	k(st, packResults(res))
}

var noPanicExternals = map[string]bool{
	"fmt.Sprintf": true, "fmt.Sprint": true, "reflect.TypeOf": true, "reflect.ValueOf": true,
	"strings.HasPrefix": true, "strings.Cut": true, "strings.TrimLeft": true, "strings.Contains": true, "strings.Count": true, "strings.Split": true, "strings.TrimPrefix": true, "strings.Index": true,
	"(*strings.Builder).WriteString": true, "(*strings.Builder).String": true, "(*strings.Builder).Reset": true,
	"strconv.FormatBool": true, "strconv.FormatInt": true, "strconv.FormatUint": true, "strconv.FormatFloat": true, "strconv.Quote": true, "strconv.QuoteRune": true,
	"strconv.ParseBool": true, "strconv.ParseInt": true, "strconv.ParseUint": true, "strconv.ParseFloat": true, "strconv.ParseComplex": true, "strconv.Unquote": true,
	"utf8.DecodeRuneInString": true, "cmplx.Abs": true, "cmplx.Phase": true,
	"(reflect.Value).Len": true, "(reflect.Value).Index": true, "(reflect.Value).IsValid": true, "(reflect.Value).IsNil": true,
	"(reflect.Value).Kind": true, "(reflect.Value).Type": true, "(reflect.Value).Interface": true, "(reflect.Value).MapRange": true,
	"(reflect.Value).MapIndex": true, "(reflect.Value).MapKeys": true, "(reflect.Value).NumMethod": true, "(reflect.Value).Method": true,
	"(reflect.Value).MethodByName": true, "(reflect.Value).Elem": true, "(reflect.Value).NumField": true, "(reflect.Value).Field": true,
	"(reflect.Value).CanInterface": true, "(reflect.Value).Bool": true, "(reflect.Value).Int": true, "(reflect.Value).Uint": true,
	"(reflect.Value).Float": true, "(reflect.Value).Complex": true, "(reflect.Value).String": true,
	"Type.NumMethod": true, "Type.Method": true, "Type.NumIn": true, "Type.String": true, "Type.Implements": true, "Type.Elem": true, "Type.Kind": true,
	"(*reflect.MapIter).Next": true, "(*reflect.MapIter).Key": true, "(*reflect.MapIter).Value": true,
}

func (e *Engine) noPanicExternal(key string) bool { return noPanicExternals[key] }

// inline executes a callee body in place (private helpers without contracts).
func (fc *fnCtx) inline(st *State, fr *frame, site string, callee *ssa.Function, recv *Val, args []Val, k func(*State, Val)) {
	if fr.depth >= maxInlineDepth {
		fc.unsupported("inlining depth exceeded at %s -> %s", fr.key, fc.e.keyOf(callee))
	}
	for p := fr; p != nil; p = p.parent {
		if p.fn == callee {
			fc.unsupported("recursive call of %s without a contract", fc.e.keyOf(callee))
		}
	}
	nf := fc.newFrame(callee, fr)
	nf.site = site
	savedNames := st.names
	st.outer = append(st.outer, savedNames)
	st.names = map[string]Val{}
	all := args
	if recv != nil {
		all = append([]Val{*recv}, args...)
	}
	if len(all) != len(callee.Params) {
		fc.unsupported("argument count mismatch inlining %s", fc.e.keyOf(callee))
	}
	nf.params = map[string]Val{}
	nf.lets = map[string]Val{}
	for i, p := range callee.Params {
		v := all[i]
		v.GT = p.Type()
		st.env[p] = v
		st.names[p.Name()] = v
		if i == 0 && callee.Signature.Recv() != nil {
			this := v
			nf.this = &this
		} else {
			nf.params[p.Name()] = v
		}
	}
	nf.entry = copyHeap(st.heap)
	nf.entryT = st.now
	st.trace = append(st.trace, "{"+shortKey(nf.key))
	nf.ret = func(st *State, res []Val) {
		st.names = copyNames(savedNames)
		if len(st.outer) > 0 {
			st.outer = st.outer[:len(st.outer)-1]
		}
		st.trace = append(st.trace, "}")
		k(st, packResults(res))
	}
	nf.pan = func(st *State, why string) {
		st.names = copyNames(savedNames)
		if len(st.outer) > 0 {
			st.outer = st.outer[:len(st.outer)-1]
		}
		fr.pan(st, why)
	}
	fc.execBlock(st, nf, callee.Blocks[0], nil)
}

func (fc *fnCtx) inlineClosure(st *State, fr *frame, site string, ci *closureInfo, args []Val, k func(*State, Val)) {
	nf := fc.newFrame(ci.fn, fr)
	savedNames := st.names
	st.names = map[string]Val{}
	for i, p := range ci.fn.Params {
		v := args[i]
		v.GT = p.Type()
		st.env[p] = v
	}
	for i, fv := range ci.fn.FreeVars {
		st.env[fv] = ci.binds[i]
	}
	nf.ret = func(st *State, res []Val) {
		st.names = copyNames(savedNames)
		k(st, packResults(res))
	}
	nf.pan = func(st *State, why string) {
		st.names = copyNames(savedNames)
		fr.pan(st, why)
	}
	fc.execBlock(st, nf, ci.fn.Blocks[0], nil)
}

// applySpec: modular call — assert requires, havoc modifies, assume ensures.
func (fc *fnCtx) applySpec(st *State, fr *frame, site string, spec *effSpec, recv *Val, args []Val, resT []types.Type, k func(*State, []Val)) {
	preHeap := copyHeap(st.heap)
	preNow := st.now
	// lets are evaluated in the pre-state
	lets := map[string]Val{}
	evalIn := func(sc *specCtx, c effClause, want Sort) (t string, ok bool) {
		defer func() {
			if r := recover(); r != nil {
				if se, isS := r.(specError); isS {
					fc.contractError(st, c.Clause, se.msg+" [at call site "+site+" in "+fr.key+"]")
					ok = false
					return
				}
				panic(r)
			}
		}()
		for n, v := range lets {
			sc.vars[n] = v
		}
		v := sc.eval(c.E)
		sc.want(v, want, c.E)
		return v.T, true
	}
	for _, l := range spec.lets {
		sc := fc.calleeCtx(st, spec, l.params, recv, args, nil)
		sc.old, sc.oldNow = preHeap, preNow
		func() {
			defer func() {
				if r := recover(); r != nil {
					if se, isS := r.(specError); isS {
						fc.contractError(st, l.Clause, se.msg)
						return
					}
					panic(r)
				}
			}()
			for n, v := range lets {
				sc.vars[n] = v
			}
			lets[l.Name] = sc.eval(l.E)
		}()
	}
	for _, r := range spec.requires {
		sc := fc.calleeCtx(st, spec, r.params, recv, args, nil)
		sc.old, sc.oldNow = preHeap, preNow
		if g, ok := evalIn(sc, r, SBool); ok {
			fc.emit(st, fc.oblName(fr, fmt.Sprintf("pre@%s.%s.requires%d", site, shortKey(spec.key), r.Ord)), "pre", r.Text, clauseLoc(r.Clause), g, nil)
			st.pc = append(st.pc, g)
		}
	}
	if !spec.flags["nilok"] {
		if psig := fc.calleeParamTypes(spec); psig != nil {
			for i, a := range args {
				if i < len(psig) && nonNilParam(psig[i]) && a.S == SU {
					fc.emit(st, fc.oblName(fr, fmt.Sprintf("pre@%s.%s.nonnil%d", site, shortKey(spec.key), i+1)), "pre", "interface argument is not nil", "", not(eq(a.T, "nil")), nil)
				}
			}
		}
	}
	if !spec.flags["noinv"] {
		if g := fc.recvInvariant(st, recv); g != "" && g != "true" {
			fc.emit(st, fc.oblName(fr, fmt.Sprintf("pre@%s.%s.inv", site, shortKey(spec.key))), "pre", "receiver satisfies its type invariant at the call", "", g, nil)
		}
	}
	// recursion: the callee's variant must be lexicographically smaller than the caller's entry variant
	if fc.eff.decr != nil && spec.decr != nil && fc.top != nil {
		func() {
			defer func() {
				if r := recover(); r != nil {
					if se, isS := r.(specError); isS {
						fc.contractError(st, spec.decr.Clause, se.msg)
						return
					}
					panic(r)
				}
			}()
			csc := fc.calleeCtx(st, spec, spec.decr.params, recv, args, nil)
			var callee, caller []string
			for _, x := range spec.decr.E.(*CallE).Args {
				v := csc.eval(x)
				csc.want(v, SInt, x)
				callee = append(callee, v.T)
			}
			tsc := fc.specCtxForClause(st, fc.top, *fc.eff.decr)
			tsc.heap = fc.top.entry
			tsc.now = fc.top.entryT
			for _, x := range fc.eff.decr.E.(*CallE).Args {
				v := tsc.eval(x)
				tsc.want(v, SInt, x)
				caller = append(caller, v.T)
			}
			n := len(callee)
			if len(caller) < n {
				n = len(caller)
			}
			// lexicographic order on tuples of non-negative integers
			var alts []string
			for i := 0; i < n; i++ {
				var conj []string
				for j := 0; j < i; j++ {
					conj = append(conj, eq(callee[j], caller[j]))
				}
				conj = append(conj, fmt.Sprintf("(< %s %s)", callee[i], caller[i]), fmt.Sprintf("(>= %s 0)", caller[i]))
				alts = append(alts, and(conj...))
			}
			fc.emit(st, fc.oblName(fr, fmt.Sprintf("decreases@%s.%s", site, shortKey(spec.key))), "decreases",
				"recursion variant: "+spec.decr.Text+" (callee) < "+fc.eff.decr.Text+" (caller)", clauseLoc(fc.eff.decr.Clause), or(alts...), nil)
		}()
	}
	if spec.flags["mayblock"] {
		fc.blockingCall(st, fr, site, spec, recv, args)
	}
	// post-state: havoc what the callee may modify
	fc.curFrame, fc.curSite = fr, site
	if !spec.flags["syncwrites"] {
		fc.havocModifies(st, spec, recv, args)
	}
	// (syncwrites: the callee writes only lock-protected registry state — guarded-by obligations inside it —
	// which no other contract can observe, and leaves its mutex as it found it: nothing changes for the caller)
	fc.curFrame = nil
	n := fc.declare(st, "now", "Int")
	st.pc = append(st.pc, fmt.Sprintf("(>= %s %s)", n, st.now))
	st.now = n
	if !spec.flags["noinv"] {
		if g := fc.recvInvariant(st, recv); g != "" && g != "true" {
			st.pc = append(st.pc, g)
		}
	}
	// exceptional outcome
	if !spec.flags["nopanic"] && !xensuresFalse(spec) {
		st2 := st.clone()
		feasible := true
		for _, x := range spec.xensures {
			sc := fc.calleeCtx(st2, spec, x.params, recv, args, nil)
			sc.old, sc.oldNow = preHeap, preNow
			if g, ok := evalIn(sc, x, SBool); ok {
				st2.pc = append(st2.pc, g)
			}
		}
		if feasible {
			st2.trace = append(st2.trace, "panic-in:"+shortKey(spec.key))
			fr.pan(st2, "panic in "+spec.key)
		}
	}
	// normal outcome
	var res []Val
	if spec.flags["pure"] && len(resT) == 1 {
		// a pure function: the result is a function of receiver and arguments only
		fn := "pf." + sanitize(spec.key)
		var sorts, ts []string
		all := args
		if recv != nil {
			all = append([]Val{*recv}, args...)
		}
		ok := true
		for _, a := range all {
			if a.S == STuple || a.S == SAddr {
				ok = false
			}
			sorts = append(sorts, a.S.SMT())
			ts = append(ts, a.T)
		}
		if ok {
			rs := sortOfType(resT[0])
			fc.declareFun(st, fn, "("+strings.Join(sorts, " ")+") "+rs.SMT())
			v := Val{T: app(fn, ts...), S: rs, GT: resT[0]}
			if len(ts) == 0 {
				v.T = fn
			}
			n := fc.declare(st, "pure", rs.SMT())
			st.pc = append(st.pc, eq(n, v.T))
			v.T = n
			fc.assumeTyped(st, v)
			res = append(res, v)
		}
	}
	for i, t := range resT {
		if i < len(res) {
			continue
		}
		res = append(res, fc.freshVal(st, fmt.Sprintf("r%d", i), t))
	}
	for _, en := range append(append([]effClause(nil), spec.ensures...), spec.defines...) {
		if en.Kind == "checks" {
			continue // internal postcondition: not visible to callers
		}
		sc := fc.calleeCtx(st, spec, en.params, recv, args, res)
		sc.old, sc.oldNow = preHeap, preNow
		if g, ok := evalIn(sc, en, SBool); ok {
			st.pc = append(st.pc, g)
		}
	}
	k(st, res)
}

func xensuresFalse(spec *effSpec) bool {
	for _, x := range spec.xensures {
		if b, ok := x.E.(*BoolLit); ok && !b.Val {
			return true
		}
	}
	return false
}

func (fc *fnCtx) havocModifies(st *State, spec *effSpec, recv *Val, args []Val) {
	pre := copyHeap(st.heap) // every location is named in the state before the call
	for _, m := range spec.modifiesFor() {
		sc := fc.calleeCtx(st, spec, m.params, recv, args, nil)
		sc.heap = pre
		for _, loc := range m.E.(*CallE).Args {
			func() {
				defer func() {
					if r := recover(); r != nil {
						if se, isS := r.(specError); isS {
							fc.contractError(st, m.Clause, se.msg)
							return
						}
						panic(r)
					}
				}()
				fc.havocLoc(st, sc, loc)
			}()
		}
	}
}

func (fc *fnCtx) havocLoc(st *State, sc *specCtx, loc Expr) {
	havocAt := func(region, sort, obj string) {
		cur := fc.region(st, region, sort)
		elemSort := sort[len("(Array U ") : len(sort)-1]
		h := fc.declare(st, "hv", elemSort)
		if strings.HasPrefix(region, "M.") && strings.Contains(obj, "nil") {
			// a conditional location (ite(c, x, nil)): nothing is written when it denotes nil
			h = fmt.Sprintf("(ite (= %s nil) (select %s %s) %s)", obj, cur, obj, h)
		}
		fc.setRegion(st, region, sort, store(cur, obj, h))
	}
	// C19: what a callee's contract says it may write counts as a write of the caller
	wr := func(region, obj string, extra ...string) {
		if fc.curFrame != nil {
			fc.checkWrite(st, fc.curFrame, fc.curSite+"."+loc.String(), region, obj, extra...)
		}
	}
	switch l := loc.(type) {
	case *Ident:
		switch l.Name {
		case "nothing":
			return
		case "everything":
			wr("*", "")
			for r := range fc.regionSort {
				fc.havocRegion(st, r)
			}
			return
		}
	case *CallE:
		if ms, ok := fc.e.contracts.Models[l.Fun]; ok && len(l.Args) == 1 {
			obj := sc.eval(l.Args[0])
			if obj.S == SSlice {
				rn, rs := elemsRegion(SU)
				wr(rn, app("sl_arr", obj.T), fmt.Sprintf("(= (sl_len %s) 0)", obj.T)) // an empty slice has no elements to write
				havocAt(rn, rs, app("sl_arr", obj.T))
				return
			}
			wr("M."+l.Fun, obj.T)
			// an object of concrete type with a model clause: the model is derived from its
			// representation, which is what changes; otherwise the abstract model field
			if !fc.havocRepresentation(st, sc, l.Fun, obj) {
				havocAt("M."+l.Fun, regionArraySort(sortByName(ms)), obj.T)
			}
			return
		}
		switch l.Fun {
		case "elems":
			obj := sc.eval(l.Args[0])
			rn, rs := elemsRegion(SU)
			t := obj.T
			if obj.S == SSlice {
				t = app("sl_arr", obj.T)
				wr(rn, t, fmt.Sprintf("(= (sl_len %s) 0)", obj.T))
			} else {
				wr(rn, t)
			}
			havocAt(rn, rs, t)
			return
		case "global":
			// global(NAME): a package-level variable of the contract's package
			if id, ok := l.Args[0].(*Ident); ok {
				rn := "global." + sc.pkg + "." + id.Name
				wr(rn, "")
				if _, ok := fc.regionSort[rn]; ok {
					fc.havocRegion(st, rn)
				}
				return
			}
		case "mapof":
			obj := sc.eval(l.Args[0])
			wr("map.dom", obj.T)
			havocAt("map.dom", "(Array U (Array U Bool))", obj.T)
			havocAt("map.get", "(Array U (Array U U))", obj.T)
			havocAt("map.card", "(Array U Int)", obj.T)
			return
		case "region":
			// region(name): whole-region havoc, e.g. region(cell.U)
			if id, ok := l.Args[0].(*Ident); ok {
				name := id.Name
				if _, isModel := fc.e.contracts.Models[name]; isModel {
					name = "M." + name // region(model): the model of every object
				}
				wr(name, "")
				fc.havocRegion(st, name)
				return
			}
		}
	case *FieldE:
		obj := sc.eval(l.X)
		named, ok := derefNamed(obj.GT)
		if !ok {
			specFail("modifies %s: unknown static type", loc)
		}
		stt, ok := named.Underlying().(*types.Struct)
		if !ok {
			specFail("modifies %s: not a struct", loc)
		}
		for i := 0; i < stt.NumFields(); i++ {
			f := stt.Field(i)
			if f.Name() == l.Name {
				wr(fieldRegion(named.Origin(), f.Name()), obj.T)
				havocAt(fieldRegion(named.Origin(), f.Name()), regionArraySort(sortOfType(f.Type())), obj.T)
				return
			}
		}
	}
	specFail("unsupported modifies location %s", loc)
}

// havocRepresentation: when a callee modifies model m of an object whose model is
// defined by a type clause in terms of other state known in this function (a
// tracked object), the state the clause mentions is havocked: the fields of the
// object named in the clause and the models of the objects they hold.
func (fc *fnCtx) havocRepresentation(st *State, sc *specCtx, model string, obj Val) bool {
	named, ok := derefNamed(obj.GT)
	if !ok {
		return false
	}
	if _, isIface := named.Underlying().(*types.Interface); isIface {
		return false
	}
	pkg := ""
	if named.Obj().Pkg() != nil {
		pkg = named.Obj().Pkg().Name()
	}
	ts := fc.e.contracts.Types[pkg+"."+named.Obj().Name()]
	if ts == nil || ts.Models[model] == nil {
		return false
	}
	havocAt := func(region, sort, o string) {
		cur := fc.region(st, region, sort)
		elemSort := sort[len("(Array U ") : len(sort)-1]
		h := fc.declare(st, "hv", elemSort)
		fc.setRegion(st, region, sort, store(cur, o, h))
	}
	stt, _ := named.Underlying().(*types.Struct)
	var walk func(e Expr)
	walk = func(e Expr) {
		switch x := e.(type) {
		case *FieldE:
			if id, ok := x.X.(*Ident); ok && id.Name == "this" && stt != nil {
				for i := 0; i < stt.NumFields(); i++ {
					if f := stt.Field(i); f.Name() == x.Name {
						havocAt(fieldRegion(named.Origin(), f.Name()), regionArraySort(sortOfType(f.Type())), obj.T)
					}
				}
				return
			}
			walk(x.X)
		case *CallE:
			for _, a := range x.Args {
				walk(a)
			}
			if ms, isModel := fc.e.contracts.Models[x.Fun]; isModel && len(x.Args) == 1 {
				// evaluated after the fields were havocked: the (possibly new) inner object
				n := &specCtx{fc: fc, st: st, heap: st.heap, now: st.now, vars: map[string]Val{"this": {T: obj.T, S: obj.S, GT: obj.GT}}, params: map[string]Val{}, pkg: pkg}
				inner := n.eval(x.Args[0])
				if inner.S == SSlice {
					rn, rs := elemsRegion(SU)
					havocAt(rn, rs, app("sl_arr", inner.T))
				} else {
					havocAt("M."+x.Fun, regionArraySort(sortByName(ms)), inner.T)
				}
			}
		case *Binary:
			walk(x.X)
			walk(x.Y)
		case *Unary:
			walk(x.X)
		case *IndexE:
			walk(x.X)
			walk(x.I)
		}
	}
	walk(ts.Models[model].E)
	// ownership: a method that changes a model of its receiver may change everything the
	// receiver owns — its (mutable) fields, the Go maps they hold and the models of the
	// objects they refer to (before and after the call)
	if stt != nil {
		type held struct {
			t  types.Type
			tm string
		}
		var olds []held
		for i := 0; i < stt.NumFields(); i++ {
			f := stt.Field(i)
			if fc.e.immutableFn(named, f.Name()) != "" || sortOfType(f.Type()) != SU {
				continue
			}
			rn := fieldRegion(named.Origin(), f.Name())
			cur := fc.region(st, rn, regionArraySort(SU))
			olds = append(olds, held{f.Type(), sel(cur, obj.T)})
		}
		for i := 0; i < stt.NumFields(); i++ {
			f := stt.Field(i)
			if fc.e.immutableFn(named, f.Name()) != "" {
				continue
			}
			havocAt(fieldRegion(named.Origin(), f.Name()), regionArraySort(sortOfType(f.Type())), obj.T)
		}
		var news []held
		for i := 0; i < stt.NumFields(); i++ {
			f := stt.Field(i)
			if fc.e.immutableFn(named, f.Name()) != "" || sortOfType(f.Type()) != SU {
				continue
			}
			rn := fieldRegion(named.Origin(), f.Name())
			cur := fc.region(st, rn, regionArraySort(SU))
			news = append(news, held{f.Type(), sel(cur, obj.T)})
		}
		for _, h := range append(olds, news...) {
			switch h.t.Underlying().(type) {
			case *types.Map:
				fc.mapRegions(st)
				havocAt("map.dom", "(Array U (Array U Bool))", h.tm)
				havocAt("map.get", "(Array U (Array U U))", h.tm)
				havocAt("map.card", "(Array U Int)", h.tm)
			case *types.Interface, *types.Pointer:
				for m, ms := range fc.e.contracts.Models {
					if _, ok := fc.regionSort["M."+m]; ok {
						havocAt("M."+m, regionArraySort(sortByName(ms)), h.tm)
					}
				}
			}
		}
	}
	return true
}

// recvInvariant returns the invariant of a receiver of concrete static type, if its type has one.
func (fc *fnCtx) recvInvariant(st *State, recv *Val) string {
	if recv == nil || recv.GT == nil {
		return ""
	}
	named, ok := derefNamed(recv.GT)
	if !ok {
		return ""
	}
	if _, isIface := named.Underlying().(*types.Interface); isIface {
		return ""
	}
	pkg := ""
	if named.Obj().Pkg() != nil {
		pkg = named.Obj().Pkg().Name()
	}
	ts := fc.e.contracts.Types[pkg+"."+named.Obj().Name()]
	if ts == nil || len(ts.Invariants) == 0 {
		return ""
	}
	sc := &specCtx{fc: fc, st: st, heap: st.heap, now: st.now, vars: map[string]Val{"this": *recv}, params: map[string]Val{}, pkg: pkg}
	var parts []string
	func() {
		defer func() {
			if r := recover(); r != nil {
				if _, ok := r.(specError); ok {
					parts = nil
					return
				}
				panic(r)
			}
		}()
		for _, inv := range ts.Invariants {
			v := sc.eval(inv.E)
			parts = append(parts, v.T)
		}
	}()
	return and(parts...)
}

// builtins -------------------------------------------------------------------

func (fc *fnCtx) builtin(st *State, fr *frame, call *ssa.Call, b *ssa.Builtin, k func(*State, Val)) {
	c := call.Common()
	args := fc.callArgs(st, c)
	switch b.Name() {
	case "len":
		x := args[0]
		switch x.S {
		case SSlice:
			k(st, Val{T: app("sl_len", x.T), S: SInt, GT: call.Type()})
		case SStr:
			k(st, Val{T: app("str_len", x.T), S: SInt, GT: call.Type()})
		default:
			switch c.Args[0].Type().Underlying().(type) {
			case *types.Map:
				card := fc.region(st, "map.card", "(Array U Int)")
				v := Val{T: fmt.Sprintf("(ite (= %s nil) 0 %s)", x.T, sel(card, x.T)), S: SInt, GT: call.Type()}
				st.pc = append(st.pc, app("<=", "0", v.T), app("<=", v.T, "MAXLEN"))
				k(st, v)
			case *types.Chan:
				fc.chanLen(st, fr, call, x, k)
			default:
				fc.unsupported("len of %s", c.Args[0].Type())
			}
		}
	case "cap":
		k(st, Val{T: app("sl_cap", args[0].T), S: SInt, GT: call.Type()})
	case "copy":
		dst, src := args[0], args[1]
		if src.S != SSlice {
			fc.unsupported("copy from %s", src.S.Short())
		}
		es := sortOfType(c.Args[0].Type().Underlying().(*types.Slice).Elem())
		rn, rs := elemsRegion(es)
		cur := fc.region(st, rn, rs)
		n := fc.declare(st, "ncopy", "Int")
		st.pc = append(st.pc, fmt.Sprintf("(= %s (ite (<= (sl_len %s) (sl_len %s)) (sl_len %s) (sl_len %s)))", n, dst.T, src.T, dst.T, src.T))
		// new contents of the destination array
		na := fc.declare(st, "copied", "(Array Int "+es.SMT()+")")
		oldDst := sel(cur, app("sl_arr", dst.T))
		oldSrc := sel(cur, app("sl_arr", src.T))
		st.pc = append(st.pc, fmt.Sprintf("(forall ((j Int)) (! (= (select %s j) (ite (and (<= (sl_off %s) j) (< j (+ (sl_off %s) %s))) (select %s (+ (- j (sl_off %s)) (sl_off %s))) (select %s j))) :pattern ((select %s j))))",
			na, dst.T, dst.T, n, oldSrc, dst.T, src.T, oldDst, na))
		fc.setRegion(st, rn, rs, store(cur, app("sl_arr", dst.T), na))
		k(st, Val{T: n, S: SInt, GT: call.Type()})
	case "delete":
		m, key := args[0], fc.box(st, args[1])
		fc.checkMapGuard(st, fr, call, m, true)
		fc.checkWrite(st, fr, fc.instrLabel(fr, call), "map.dom", m.T)
		fc.mapDelete(st, m.T, key.T)
		k(st, Val{S: STuple})
	case "close":
		fc.chanClose(st, fr, call, args[0], k)
	case "real", "imag":
		fn := "cplx_" + b.Name()
		fc.declareFun(st, fn, "(Cplx) (_ FloatingPoint 11 53)")
		k(st, Val{T: app(fn, args[0].T), S: SF64, GT: call.Type()})
	case "print", "println":
		k(st, Val{S: STuple})
	default:
		fc.unsupported("builtin %s", b.Name())
	}
}

// Go maps --------------------------------------------------------------------

func (fc *fnCtx) mapRegions(st *State) (dom, get, card string) {
	return fc.region(st, "map.dom", "(Array U (Array U Bool))"), fc.region(st, "map.get", "(Array U (Array U U))"), fc.region(st, "map.card", "(Array U Int)")
}

func (fc *fnCtx) mapStore(st *State, m, k, v string) {
	dom, get, card := fc.mapRegions(st)
	fc.setRegion(st, "map.card", "(Array U Int)", store(card, m, fmt.Sprintf("(ite (select (select %s %s) %s) (select %s %s) (+ (select %s %s) 1))", dom, m, k, card, m, card, m)))
	fc.setRegion(st, "map.dom", "(Array U (Array U Bool))", store(dom, m, store(sel(dom, m), k, "true")))
	fc.setRegion(st, "map.get", "(Array U (Array U U))", store(get, m, store(sel(get, m), k, v)))
}

func (fc *fnCtx) mapDelete(st *State, m, k string) {
	dom, _, card := fc.mapRegions(st)
	// delete on a nil map is a no-op
	fc.setRegion(st, "map.card", "(Array U Int)", store(card, m, fmt.Sprintf("(ite (select (select %s %s) %s) (- (select %s %s) 1) (select %s %s))", dom, m, k, card, m, card, m)))
	fc.setRegion(st, "map.dom", "(Array U (Array U Bool))", store(dom, m, store(sel(dom, m), k, "false")))
}

func (fc *fnCtx) lookup(st *State, fr *frame, ins *ssa.Lookup) {
	x := fc.val(st, ins.X)
	switch t := ins.X.Type().Underlying().(type) {
	case *types.Map:
		fc.checkMapGuard(st, fr, ins, x, false)
		key := fc.box(st, fc.val(st, ins.Index))
		dom, get, _ := fc.mapRegions(st)
		present := and(not(eq(x.T, "nil")), sel(sel(dom, x.T), key.T))
		z := fc.zeroOf(st, t.Elem())
		raw := Val{T: sel(sel(get, x.T), key.T), S: SU}
		val := fc.unbox(st, raw, t.Elem())
		v := Val{T: fmt.Sprintf("(ite %s %s %s)", present, val.T, z.T), S: val.S, GT: t.Elem()}
		if ins.CommaOk {
			okN := fc.declare(st, "present", "Bool")
			st.pc = append(st.pc, eq(okN, present))
			vn := fc.declare(st, "mval", v.S.SMT())
			st.pc = append(st.pc, eq(vn, v.T))
			vv := Val{T: vn, S: v.S, GT: t.Elem()}
			fc.assumeTyped(st, vv)
			st.env[ins] = Val{S: STuple, Tup: []Val{vv, {T: okN, S: SBool}}}
			return
		}
		d := fc.define(st, ins, v.T)
		fc.assumeTyped(st, d)
	case *types.Basic:
		// string index
		idx := fc.val(st, ins.Index)
		fc.runtimeCheck(st, fr, ins, "index", fmt.Sprintf("(or (< %s 0) (>= %s (str_len %s)))", idx.T, idx.T, x.T))
		fc.declareFun(st, "str_at", "(Str Int) Int")
		d := fc.define(st, ins, app("str_at", x.T, idx.T))
		fc.assumeTyped(st, d)
	default:
		fc.unsupported("lookup on %s", ins.X.Type())
	}
}

// range over maps: a ghost enumeration sequence of the key snapshot.
type rangeState struct {
	m    string
	keys string // SeqU of keys at range start
	dom  string // dom snapshot
	get  string
}

func (fc *fnCtx) rangeInit(st *State, ins *ssa.Range) {
	x := fc.val(st, ins.X)
	if _, ok := ins.X.Type().Underlying().(*types.Map); !ok {
		fc.unsupported("range over %s", ins.X.Type())
	}
	dom, _, card := fc.mapRegions(st)
	keys := fc.declare(st, "enum", "SeqU")
	// enumeration lists every key of the snapshot exactly once
	st.pc = append(st.pc, fmt.Sprintf("(= (sq_len %s) (ite (= %s nil) 0 (select %s %s)))", keys, x.T, card, x.T))
	st.pc = append(st.pc, fmt.Sprintf("(forall ((i Int)) (! (=> (and (<= 0 i) (< i (sq_len %s))) (select (select %s %s) (sq_at %s i))) :pattern ((sq_at %s i))))", keys, dom, x.T, keys, keys))
	st.pc = append(st.pc, fmt.Sprintf("(forall ((i Int) (j Int)) (! (=> (and (<= 0 i) (< i j) (< j (sq_len %s))) (not (= (sq_at %s i) (sq_at %s j)))) :pattern ((sq_at %s i) (sq_at %s j))))", keys, keys, keys, keys, keys))
	fc.declareFun(st, "enum_idx", "(SeqU U) Int")
	st.pc = append(st.pc, fmt.Sprintf("(forall ((k U)) (! (=> (select (select %s %s) k) (and (<= 0 (enum_idx %s k)) (< (enum_idx %s k) (sq_len %s)) (= (sq_at %s (enum_idx %s k)) k))) :pattern ((select (select %s %s) k))))", dom, x.T, keys, keys, keys, keys, keys, dom, x.T))
	r := fc.newObject(st, "rangeiter", nil)
	posR := fc.region(st, "range.pos", "(Array U Int)")
	fc.setRegion(st, "range.pos", "(Array U Int)", store(posR, r.T, "0"))
	fc.declareFun(st, "range_keys", "(U) SeqU")
	fc.declareFun(st, "range_map", "(U) U")
	st.pc = append(st.pc, eq(app("range_keys", r.T), keys), eq(app("range_map", r.T), x.T))
	st.names["$enum"] = Val{T: keys, S: SSeq}
	st.names["$iter"] = r
	st.env[ins] = r
}

func (fc *fnCtx) rangeNext(st *State, ins *ssa.Next) {
	if ins.IsString {
		fc.unsupported("range over string")
	}
	it := fc.val(st, ins.Iter)
	rng := ins.Iter.(*ssa.Range)
	mt := rng.X.Type().Underlying().(*types.Map)
	posR := fc.region(st, "range.pos", "(Array U Int)")
	pos := sel(posR, it.T)
	keys := app("range_keys", it.T)
	m := app("range_map", it.T)
	_, get, _ := fc.mapRegions(st)
	okN := fc.declare(st, "more", "Bool")
	st.pc = append(st.pc, eq(okN, fmt.Sprintf("(< %s (sq_len %s))", pos, keys)))
	kU := Val{T: app("sq_at", keys, pos), S: SU}
	kv := fc.unbox(st, kU, mt.Key())
	vv := fc.unbox(st, Val{T: sel(sel(get, m), kU.T), S: SU}, mt.Elem())
	kn := fc.declare(st, "rkey", kv.S.SMT())
	st.pc = append(st.pc, eq(kn, kv.T))
	vn := fc.declare(st, "rval", vv.S.SMT())
	st.pc = append(st.pc, eq(vn, vv.T))
	st.names["$pos"] = Val{T: pos, S: SInt}
	fc.setRegion(st, "range.pos", "(Array U Int)", store(posR, it.T, fmt.Sprintf("(ite %s (+ %s 1) %s)", okN, pos, pos)))
	st.env[ins] = Val{S: STuple, Tup: []Val{{T: okN, S: SBool}, {T: kn, S: kv.S, GT: mt.Key()}, {T: vn, S: vv.S, GT: mt.Elem()}}}
}

// typeArgMap maps the type-parameter names of a (possibly pointer to a) named
// generic type to its actual type arguments.
func typeArgMap(t types.Type) map[string]types.Type {
	if p, ok := t.(*types.Pointer); ok {
		t = p.Elem()
	}
	n, ok := t.(*types.Named)
	if !ok || n.TypeArgs() == nil {
		return nil
	}
	m := map[string]types.Type{}
	tps := n.Origin().TypeParams()
	for i := 0; i < tps.Len() && i < n.TypeArgs().Len(); i++ {
		m[tps.At(i).Obj().Name()] = n.TypeArgs().At(i)
	}
	return m
}

// calleeParamTypes returns the declared parameter types of the function or
// interface method a contract belongs to.
func (fc *fnCtx) calleeParamTypes(spec *effSpec) []types.Type {
	var sig *types.Signature
	if f := fc.e.funcs[spec.key]; f != nil {
		sig = f.Signature
	} else {
		parts := strings.Split(spec.key, ".")
		if len(parts) == 3 {
			if named := fc.e.typeByKey[parts[0]+"."+parts[1]]; named != nil {
				switch u := named.Underlying().(type) {
				case *types.Interface:
					for i := 0; i < u.NumMethods(); i++ {
						if u.Method(i).Name() == parts[2] {
							sig = u.Method(i).Type().(*types.Signature)
						}
					}
				case *types.Signature:
					sig = u
				}
			}
		}
	}
	if sig == nil {
		return nil
	}
	var ts []types.Type
	for i := 0; i < sig.Params().Len(); i++ {
		ts = append(ts, sig.Params().At(i).Type())
	}
	return ts
}

// modifiesFor: a concrete function that states its own (representation-level) modifies
// clauses is framed by those; otherwise by the clauses of the interface contracts.
func (spec *effSpec) modifiesFor() []effClause {
	if len(spec.ownMod) > 0 {
		return spec.ownMod
	}
	return spec.modifies
}
