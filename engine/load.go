package main

import (
	"fmt"
	"go/ast"
	"go/types"
	"os"
	"path/filepath"
	"sort"
	"strings"

	"golang.org/x/tools/go/packages"
	"golang.org/x/tools/go/ssa"
	"golang.org/x/tools/go/ssa/ssautil"
)

type Engine struct {
	repo       string
	prog       *ssa.Program
	pkgs       []*packages.Package
	spkgs      map[string]*ssa.Package // by package name
	funcs      map[string]*ssa.Function
	funcKey    map[*ssa.Function]string
	contracts  *Contracts
	typeByKey  map[string]*types.Named
	fresh      int
	obls       []*Obligation
	oblByName  map[string]*Obligation
	warnings   map[string]bool
	externals  map[string]bool
	usedSpecs  map[string]bool // contracts applied at some call site in this run
	typeIDs    map[string]int
	strLits    map[string]int
	regionIDs  map[string]int
	tier       string
	axCache    map[string]*cachedAxiom
	lemmaLimit int
	axCacheKey string
	known      []*KnownFinding
	timeoutS   int
	verbose    bool
	outDir     string
	loopVars   map[string][]LoopVar // registered loop-carried variables per function (rename tolerance)
	curVars    map[string][]LoopVar // those of the functions verified in this run
	prop       string               // property being checked ("" with -func)
}

func repoPkgPrefix() string { return "github.com/craterdog/go-collection-framework/v4" }

func NewEngine(repo string) (*Engine, error) {
	e := &Engine{repo: repo, spkgs: map[string]*ssa.Package{}, funcs: map[string]*ssa.Function{}, funcKey: map[*ssa.Function]string{},
		typeByKey: map[string]*types.Named{}, oblByName: map[string]*Obligation{}, warnings: map[string]bool{}, externals: map[string]bool{}, usedSpecs: map[string]bool{},
		typeIDs: map[string]int{}, strLits: map[string]int{}, regionIDs: map[string]int{}, lemmaLimit: -1}
	cfg := &packages.Config{Mode: packages.LoadAllSyntax, Dir: filepath.Join(repo, "v4"), Tests: false,
		Env: append(os.Environ(), "GOFLAGS=-mod=mod", "GOPROXY=off", "GOSUMDB=off", "GOTOOLCHAIN=local")}
	pkgs, err := packages.Load(cfg, "./...")
	if err != nil {
		return nil, err
	}
	nerr := 0
	packages.Visit(pkgs, nil, func(p *packages.Package) {
		for _, e := range p.Errors {
			fmt.Fprintln(os.Stderr, "load error:", e)
			nerr++
		}
	})
	if nerr > 0 {
		return nil, fmt.Errorf("%d errors loading %s (the repository must compile)", nerr, repo)
	}
	e.pkgs = pkgs
	prog, spkgs := ssautil.AllPackages(pkgs, ssa.GlobalDebug)
	prog.Build()
	e.prog = prog
	for _, sp := range spkgs {
		if sp == nil {
			continue
		}
		name := sp.Pkg.Name()
		e.spkgs[name] = sp
		for _, m := range sp.Members {
			switch m := m.(type) {
			case *ssa.Function:
				e.addFunc(name, m.Name(), m)
			case *ssa.Type:
				named, ok := m.Type().(*types.Named)
				if !ok {
					continue
				}
				e.typeByKey[name+"."+named.Obj().Name()] = named
				for i := 0; i < named.NumMethods(); i++ {
					meth := named.Method(i)
					f := prog.FuncValue(meth)
					if f == nil {
						continue
					}
					recv := meth.Type().(*types.Signature).Recv().Type()
					k := "(" + named.Obj().Name() + ")." + meth.Name()
					if _, isPtr := recv.(*types.Pointer); isPtr {
						k = "(*" + named.Obj().Name() + ")." + meth.Name()
					}
					e.addFunc(name, k, f)
				}
			}
		}
	}
	return e, nil
}

func (e *Engine) addFunc(pkg, key string, f *ssa.Function) {
	e.funcs[pkg+"."+key] = f
	e.funcKey[f] = pkg + "." + key
	for i, an := range f.AnonFuncs {
		e.addFunc(pkg, fmt.Sprintf("%s$%d", key, i+1), an)
	}
}

// keyOf returns the contract key of a (possibly instantiated) function.
func (e *Engine) keyOf(f *ssa.Function) string {
	if o := f.Origin(); o != nil {
		f = o
	}
	if k, ok := e.funcKey[f]; ok {
		return k
	}
	// external function: fully qualified
	if f.Signature.Recv() != nil {
		rt := f.Signature.Recv().Type()
		ptr := ""
		if p, ok := rt.(*types.Pointer); ok {
			rt = p.Elem()
			ptr = "*"
		}
		if n, ok := rt.(*types.Named); ok && n.Obj().Pkg() != nil {
			return "(" + ptr + n.Obj().Pkg().Name() + "." + n.Obj().Name() + ")." + f.Name()
		}
	}
	if f.Pkg != nil {
		return f.Pkg.Pkg.Name() + "." + f.Name()
	}
	if f.Object() != nil && f.Object().Pkg() != nil {
		return f.Object().Pkg().Name() + "." + f.Name()
	}
	return f.String()
}

func (e *Engine) inRepo(f *ssa.Function) bool {
	if o := f.Origin(); o != nil {
		f = o
	}
	_, ok := e.funcKey[f]
	return ok
}

// contractFiles returns the guarded contract files in the repository.
func contractFiles(repo string) []string {
	var out []string
	filepath.Walk(filepath.Join(repo, "v4"), func(p string, info os.FileInfo, err error) error {
		if err == nil && !info.IsDir() && strings.HasSuffix(p, "contracts_verif.go") {
			out = append(out, p)
		}
		return nil
	})
	sort.Strings(out)
	return out
}

// loop structure -------------------------------------------------------------

type loopInfo struct {
	header  *ssa.BasicBlock
	body    map[*ssa.BasicBlock]bool
	ordinal int
	spec    *LoopSpec
}

func findLoops(fn *ssa.Function) map[*ssa.BasicBlock]*loopInfo {
	loops := map[*ssa.BasicBlock]*loopInfo{}
	for _, b := range fn.Blocks {
		for _, s := range b.Succs {
			if s.Dominates(b) { // back edge b -> s
				li := loops[s]
				if li == nil {
					li = &loopInfo{header: s, body: map[*ssa.BasicBlock]bool{s: true}}
					loops[s] = li
				}
				// collect natural loop
				var stack []*ssa.BasicBlock
				if !li.body[b] {
					li.body[b] = true
					stack = append(stack, b)
				}
				for len(stack) > 0 {
					x := stack[len(stack)-1]
					stack = stack[:len(stack)-1]
					for _, p := range x.Preds {
						if !li.body[p] {
							li.body[p] = true
							stack = append(stack, p)
						}
					}
				}
			}
		}
	}
	// ordinals: source order of for/range statements == position order of headers
	var hs []*ssa.BasicBlock
	for h := range loops {
		hs = append(hs, h)
	}
	pos := func(b *ssa.BasicBlock) int {
		// position of the first instruction with a position in the loop header or body entry
		best := int(^uint(0) >> 1)
		li := loops[b]
		for blk := range li.body {
			for _, ins := range blk.Instrs {
				if _, isPhi := ins.(*ssa.Phi); isPhi {
					continue // a phi carries the position of the variable's declaration
				}
				if p := ins.Pos(); p.IsValid() && int(p) < best {
					best = int(p)
				}
			}
		}
		return best
	}
	// Prefer syntactic order from the AST when available.
	if syn, ok := fn.Syntax().(ast.Node); ok && syn != nil {
		_ = syn
	}
	sort.Slice(hs, func(i, j int) bool {
		pi, pj := pos(hs[i]), pos(hs[j])
		if pi != pj {
			return pi < pj
		}
		return hs[i].Index < hs[j].Index
	})
	for i, h := range hs {
		loops[h].ordinal = i + 1
	}
	return loops
}

// LoopVar: a named loop-carried variable (phi at a loop header) of a function under contract. The registry
// (engine/loopvars.json, written with -update-expected) lets a contract keep working when a refactoring merely
// renames such a variable: an identifier a contract no longer resolves is looked up here by (loop, position, type).
type LoopVar struct {
	Loop  int    `json:"loop"`
	Index int    `json:"index"`
	Name  string `json:"name"`
	Type  string `json:"type"`
}
