package main

import (
	"fmt"
	"go/types"
	"sort"
	"strings"

	"golang.org/x/tools/go/ssa"
)

type Query struct {
	Path    string
	SMT     string
	Result  string // unsat, sat, unknown, timeout, error
	Solver  string
	Ms      int64
	Out     string
	Goal    string
	Retried bool   // re-run with a larger budget after the first pass timed out
	Recheck string // thorough tier: second solver and its answer on a query the first one proved
}

type Obligation struct {
	Name    string
	Func    string
	Kind    string
	Clause  string
	Loc     string
	Props   []string // nil = all props of the function
	Queries []*Query
	Status  string // proved, failed, error
	Note    string
	Vacuous bool // smoke obligations: expected sat/unknown
}

type tracked struct {
	ref    string // U term
	expand func(sc *specCtx, model string) (Val, bool)
}

// constAlloc: an object allocated on this path whose type has construction invariants (constinv).
type constAlloc struct {
	ref   string
	named *types.Named
	label string
}

type State struct {
	env     map[ssa.Value]Val
	names   map[string]Val
	heap    map[string]string
	now     string // allocation clock term
	pc      []string
	decls   []string
	tracked []tracked
	cAllocs []constAlloc // objects of a type with construction invariants allocated on this path
	loopVar map[*ssa.BasicBlock]string
	trace   []string
	held    map[string]bool // ghost: mutexes held (term -> bool)
	ghost   map[string]string
	depth   int
	defers  []*ssa.Defer     // deferred calls of the top frame registered on this path
	outer   []map[string]Val // source-variable names of the enclosing frames while a callee is executed in place
	lastRes map[string]Val   // result of the most recent call (on this path) of each named callee: lastresult(NAME)
}

func (s *State) clone() *State {
	n := &State{now: s.now, depth: s.depth}
	n.env = make(map[ssa.Value]Val, len(s.env))
	for k, v := range s.env {
		n.env[k] = v
	}
	n.names = make(map[string]Val, len(s.names))
	for k, v := range s.names {
		n.names[k] = v
	}
	n.heap = make(map[string]string, len(s.heap))
	for k, v := range s.heap {
		n.heap[k] = v
	}
	n.loopVar = make(map[*ssa.BasicBlock]string, len(s.loopVar))
	for k, v := range s.loopVar {
		n.loopVar[k] = v
	}
	n.held = make(map[string]bool, len(s.held))
	for k, v := range s.held {
		n.held[k] = v
	}
	n.ghost = make(map[string]string, len(s.ghost))
	for k, v := range s.ghost {
		n.ghost[k] = v
	}
	n.outer = append([]map[string]Val(nil), s.outer...)
	n.lastRes = make(map[string]Val, len(s.lastRes))
	for k, v := range s.lastRes {
		n.lastRes[k] = v
	}
	n.pc = append([]string(nil), s.pc...)
	n.decls = append([]string(nil), s.decls...)
	n.tracked = append([]tracked(nil), s.tracked...)
	n.cAllocs = append([]constAlloc(nil), s.cAllocs...)
	n.trace = append([]string(nil), s.trace...)
	n.defers = append([]*ssa.Defer(nil), s.defers...)
	return n
}

func copyHeap(h map[string]string) map[string]string {
	n := make(map[string]string, len(h))
	for k, v := range h {
		n[k] = v
	}
	return n
}

func copyNames(h map[string]Val) map[string]Val {
	n := make(map[string]Val, len(h))
	for k, v := range h {
		n[k] = v
	}
	return n
}

// fnCtx is the verification context of one function under contract.
type fnCtx struct {
	e               *Engine
	fn              *ssa.Function
	key             string
	pkg             string
	spec            *FuncSpec
	eff             *effSpec
	loops           map[*ssa.BasicBlock]*loopInfo
	paths           int
	regionSort      map[string]string
	tparams         map[string]bool
	safeMode        bool // runtime panics are obligations, not exceptional exits
	nquery          int
	aborted         string
	closures        map[string]*closureInfo
	siteLoop        map[string]int                // call site of a loop-bearing helper -> loop clause number (renumberLoops)
	orphanLoops     map[int]*LoopSpec             // loop clauses of the contract that name no loop of the function body
	adoptedBy       map[*ssa.BasicBlock]*LoopSpec // ... and the loop of an in-place callee each of them was attached to
	usedOrphanHints map[string]bool               // orphan hints that found their call in a helper executed in place
	adoptedAt       map[string]*LoopSpec          // the same per (loop header, call site of the helper)
	adoptedN        map[int]*ssa.BasicBlock       // orphan ordinal -> header it was attached to
	interf          bool                          // interference pass: only ipost / lockinv obligations are emitted
	curFrame        *frame                        // call site whose callee effects are being applied (C19 write obligations)
	curSite         string
	freeCells       map[string]Val // captured variables (closure under verification): name -> cell address
	top             *frame
	exitHooks       []func(st *State, fr *frame, exceptional bool)
}

type effClause struct {
	*Clause
	owner  *FuncSpec
	params []string // parameter names of the signature the clause was written against
}

type effSpec struct {
	key      string
	requires []effClause
	assumes  []effClause
	defines  []effClause
	ensures  []effClause
	xensures []effClause
	modifies []effClause
	ownMod   []effClause // modifies clauses written on the concrete function itself (representation level)
	lets     []effClause
	flags    map[string]bool
	props    []string
	decr     *effClause
}

func (e *Engine) freshName(base string) string {
	e.fresh++
	base = sanitize(base)
	return fmt.Sprintf("%s!%d", base, e.fresh)
}

func sanitize(s string) string {
	var sb strings.Builder
	for _, r := range s {
		switch {
		case r >= 'a' && r <= 'z', r >= 'A' && r <= 'Z', r >= '0' && r <= '9', r == '_', r == '.', r == '$':
			sb.WriteRune(r)
		default:
			sb.WriteRune('_')
		}
	}
	return sb.String()
}

func (fc *fnCtx) declare(st *State, base string, sort string) string {
	n := fc.e.freshName(base)
	st.decls = append(st.decls, fmt.Sprintf("(declare-const %s %s)", n, sort))
	return n
}

func (fc *fnCtx) freshVal(st *State, base string, t types.Type) Val {
	s := sortOfType(t)
	n := fc.declare(st, base, s.SMT())
	v := Val{T: n, S: s, GT: t}
	fc.assumeTyped(st, v)
	return v
}

// assumeTyped adds the type-implied facts of a value (integer ranges, slice shape, allocatedness).
func (fc *fnCtx) assumeTyped(st *State, v Val) {
	if v.GT == nil {
		return
	}
	switch v.S {
	case SInt:
		if lo, hi, ok := intRange(v.GT); ok {
			st.pc = append(st.pc, fmt.Sprintf("(and (<= %s %s) (<= %s %s))", lo, v.T, v.T, hi))
		}
	case SSlice:
		st.pc = append(st.pc, fmt.Sprintf("(and (<= 0 (sl_off %s)) (<= 0 (sl_len %s)) (<= (sl_len %s) (sl_cap %s)) (<= (sl_cap %s) MAXLEN) (=> (= (sl_arr %s) nil) (= (sl_cap %s) 0)) (< (atime (sl_arr %s)) %s))",
			v.T, v.T, v.T, v.T, v.T, v.T, v.T, v.T, st.now))
	case SU:
		switch v.GT.Underlying().(type) {
		case *types.Pointer, *types.Interface, *types.Map, *types.Chan:
			st.pc = append(st.pc, fmt.Sprintf("(< (atime %s) %s)", v.T, st.now))
		}
	case SStr:
		st.pc = append(st.pc, fmt.Sprintf("(<= 0 (str_len %s))", v.T))
	}
}

func (fc *fnCtx) region(st *State, name string, sort string) string {
	if t, ok := st.heap[name]; ok {
		return t
	}
	if _, ok := fc.regionSort[name]; !ok {
		fc.regionSort[name] = sort
	}
	n := sanitize(name) + "!0"
	st.decls = append(st.decls, fmt.Sprintf("(declare-const %s %s)", n, sort))
	st.heap[name] = n
	return n
}

// regionIn reads a region in an explicit heap snapshot, declaring the initial constant if needed.
func (fc *fnCtx) regionIn(st *State, heap map[string]string, name string, sort string) string {
	if t, ok := heap[name]; ok {
		if strings.HasSuffix(t, "!0") {
			// entry snapshots are shared between paths: make sure this path declares the initial constant
			d := fmt.Sprintf("(declare-const %s %s)", t, sort)
			found := false
			for _, x := range st.decls {
				if x == d {
					found = true
					break
				}
			}
			if !found {
				st.decls = append(st.decls, d)
				if _, has := fc.regionSort[name]; !has {
					fc.regionSort[name] = sort
				}
				if _, has := st.heap[name]; !has {
					st.heap[name] = t
				}
			}
		}
		return t
	}
	if _, ok := fc.regionSort[name]; !ok {
		fc.regionSort[name] = sort
	}
	n := sanitize(name) + "!0"
	d := fmt.Sprintf("(declare-const %s %s)", n, sort)
	found := false
	for _, x := range st.decls {
		if x == d {
			found = true
			break
		}
	}
	if !found {
		st.decls = append(st.decls, d)
	}
	heap[name] = n
	if _, ok := st.heap[name]; !ok {
		st.heap[name] = n
	}
	return n
}

func (fc *fnCtx) setRegion(st *State, name string, sort string, term string) {
	fc.region(st, name, sort)
	n := fc.declare(st, sanitize(name), sort)
	st.pc = append(st.pc, eq(n, term))
	st.heap[name] = n
}

func (fc *fnCtx) havocRegion(st *State, name string) {
	sort := fc.regionSort[name]
	if sort == "" {
		return
	}
	st.heap[name] = fc.declare(st, sanitize(name), sort)
}

func fieldRegion(named *types.Named, field string) string {
	pkg := ""
	if named.Obj().Pkg() != nil {
		pkg = named.Obj().Pkg().Name()
	}
	return "F." + pkg + "." + named.Obj().Name() + "." + field
}

func regionArraySort(elem Sort) string { return "(Array U " + elem.SMT() + ")" }
func elemsRegion(elem Sort) (string, string) {
	return "elems." + elem.Short(), "(Array U (Array Int " + elem.SMT() + "))"
}
func cellRegion(elem Sort) (string, string) {
	return "cell." + elem.Short(), "(Array U " + elem.SMT() + ")"
}

func derefNamed(t types.Type) (*types.Named, bool) {
	if t == nil {
		return nil, false
	}
	if p, ok := t.(*types.Pointer); ok {
		t = p.Elem()
	}
	if p, ok := t.Underlying().(*types.Pointer); ok {
		t = p.Elem()
	}
	n, ok := t.(*types.Named)
	return n, ok
}

func sortedKeys[V any](m map[string]V) []string {
	var ks []string
	for k := range m {
		ks = append(ks, k)
	}
	sort.Strings(ks)
	return ks
}
