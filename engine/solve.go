package main

import (
	"bytes"
	"context"
	"os/exec"
	"strings"
	"sync"
	"time"
)

type solverSpec struct {
	name string
	argv func(timeoutS int) []string
}

var solvers = []solverSpec{
	{"z3-5.1.0", func(t int) []string { return []string{"z3-new", "-in", "-T:" + itoa(t)} }},
	{"z3-4.8.12", func(t int) []string { return []string{"z3", "-in", "-T:" + itoa(t)} }},
	{"cvc5-1.0", func(t int) []string {
		return []string{"cvc5", "--lang=smt2", "--incremental", "--tlimit=" + itoa(t*1000)}
	}},
}

func itoa(i int) string {
	return strings.TrimSpace(strings.Replace(strings.Repeat(" ", 0)+fmtInt(i), " ", "", -1))
}

func fmtInt(i int) string {
	if i == 0 {
		return "0"
	}
	neg := i < 0
	if neg {
		i = -i
	}
	var b []byte
	for i > 0 {
		b = append([]byte{byte('0' + i%10)}, b...)
		i /= 10
	}
	if neg {
		b = append([]byte{'-'}, b...)
	}
	return string(b)
}

func runSolver(s solverSpec, smt string, timeoutS int) (result string, out string, ms int64) {
	argv := s.argv(timeoutS)
	ctx, cancel := context.WithTimeout(context.Background(), time.Duration(timeoutS+5)*time.Second)
	defer cancel()
	input := smt
	if strings.HasPrefix(s.name, "cvc5") {
		input = "(set-logic ALL)\n" + stripZ3Options(smt)
	}
	cmd := exec.CommandContext(ctx, argv[0], argv[1:]...)
	cmd.Stdin = strings.NewReader(input)
	var buf bytes.Buffer
	cmd.Stdout = &buf
	cmd.Stderr = &buf
	t0 := time.Now()
	_ = cmd.Run()
	ms = time.Since(t0).Milliseconds()
	out = buf.String()
	if strings.Contains(out, "(error") {
		return "error", out, ms
	}
	first := strings.TrimSpace(strings.SplitN(strings.TrimSpace(out), "\n", 2)[0])
	switch first {
	case "unsat", "sat", "unknown":
		return first, out, ms
	case "timeout":
		return "timeout", out, ms
	}
	if ctx.Err() != nil || strings.Contains(out, "timeout") || strings.Contains(out, "interrupted") {
		return "timeout", out, ms
	}
	if out == "" {
		return "timeout", out, ms
	}
	return "error", out, ms
}

func stripZ3Options(s string) string {
	var out []string
	for _, l := range strings.Split(s, "\n") {
		if strings.HasPrefix(l, "(set-option :smt.") || strings.HasPrefix(l, "(set-option :model.") {
			continue
		}
		out = append(out, l)
	}
	return strings.Join(out, "\n")
}

// solveQuery tries the back ends in order until one proves the query.
func solveQuery(q *Query, timeoutS int, thorough bool, vacuity bool) {
	if vacuity {
		r, out, ms := runSolver(solvers[0], q.SMT, 3)
		q.Result, q.Out, q.Ms, q.Solver = r, out, ms, solvers[0].name
		return
	}
	var total int64
	for i, s := range solvers {
		t := timeoutS
		if i > 0 && !thorough {
			t = timeoutS
		}
		r, out, ms := runSolver(s, q.SMT, t)
		total += ms
		if r == "unsat" {
			q.Result, q.Out, q.Ms, q.Solver = r, out, total, s.name
			if thorough && i+1 < len(solvers) {
				// thorough tier: an independent second opinion; a definite `sat` from another solver on the
				// same query would mean one of the two is wrong — the check is then broken, not passed
				r2, out2, ms2 := runSolver(solvers[i+1], q.SMT, t)
				q.Ms += ms2
				q.Recheck = solvers[i+1].name + ":" + r2
				if r2 == "sat" && !hasQuantifier(q.SMT) {
					q.Result, q.Out = "error", "solvers disagree: "+s.name+" unsat, "+solvers[i+1].name+" sat\n"+out2
				}
			}
			return
		}
		if r == "error" {
			// cvc5 rejects some z3-specific syntax; only a z3 error is fatal
			if strings.HasPrefix(s.name, "z3") {
				q.Result, q.Out, q.Ms, q.Solver = r, out, total, s.name
				return
			}
			continue
		}
		if q.Result == "" || r == "sat" {
			q.Result, q.Out, q.Solver = r, out, s.name
		}
		if r == "sat" && !hasQuantifier(q.SMT) {
			break // quantifier-free: sat is definite
		}
	}
	q.Ms = total
}

func hasQuantifier(s string) bool {
	return strings.Contains(s, "(forall") || strings.Contains(s, "(exists")
}

func (e *Engine) SolveAll(workers int) {
	type job struct {
		o *Obligation
		q *Query
	}
	jobs := make(chan job, 64)
	var wg sync.WaitGroup
	for i := 0; i < workers; i++ {
		wg.Add(1)
		go func() {
			defer wg.Done()
			for j := range jobs {
				solveQuery(j.q, e.timeoutS, e.tier == "thorough", j.o.Vacuous)
			}
		}()
	}
	for _, o := range e.obls {
		for _, q := range o.Queries {
			jobs <- job{o, q}
		}
	}
	close(jobs)
	wg.Wait()
	// second pass: a query that ran out of time (not one the solver gave up on quickly) is retried
	// with three times the budget and little competing load, so that a busy machine does not turn a
	// provable obligation into an alarm
	var slow []job
	for _, o := range e.obls {
		if o.Vacuous {
			continue
		}
		for _, q := range o.Queries {
			if (q.Result == "timeout" || q.Result == "unknown") && q.Ms >= int64(e.timeoutS)*500 {
				slow = append(slow, job{o, q})
			}
		}
	}
	if len(slow) > 0 && len(slow) <= 24 {
		retry := make(chan job, len(slow))
		for _, j := range slow {
			retry <- j
		}
		close(retry)
		var wg2 sync.WaitGroup
		for i := 0; i < 4; i++ {
			wg2.Add(1)
			go func() {
				defer wg2.Done()
				for j := range retry {
					first := j.q.Ms
					solveQuery(j.q, e.timeoutS*3, e.tier == "thorough", false)
					j.q.Ms += first
					j.q.Retried = true
				}
			}()
		}
		wg2.Wait()
	}
	for _, o := range e.obls {
		if o.Status == "error" {
			continue
		}
		o.Status = "proved"
		if o.Vacuous {
			// vacuous only if every path reaching this point is contradictory
			allUnsat := len(o.Queries) > 0
			for _, q := range o.Queries {
				if q.Result != "unsat" {
					allUnsat = false
				}
				if q.Result == "error" {
					o.Status = "error"
					o.Note = "solver error: " + firstLine(q.Out)
				}
			}
			if allUnsat {
				o.Status = "error"
				o.Note = "vacuity: the assumptions at this point are contradictory on every path"
			}
			continue
		}
		for _, q := range o.Queries {
			switch q.Result {
			case "unsat":
			case "error":
				o.Status = "error"
				o.Note = "solver error: " + firstLine(q.Out)
			default:
				if o.Status != "error" {
					o.Status = "failed"
				}
			}
		}
	}
}

func firstLine(s string) string {
	for _, l := range strings.Split(s, "\n") {
		if strings.Contains(l, "(error") {
			return l
		}
	}
	return strings.SplitN(s, "\n", 2)[0]
}

// modelFor re-runs a failed query asking for a (candidate) model.
func modelFor(q *Query) string {
	// quantifier-free relaxation (an over-approximation: the candidate may be spurious)
	var keep []string
	for _, l := range strings.Split(q.SMT, "\n") {
		if strings.HasPrefix(l, "(assert") && (strings.Contains(l, "(forall") || strings.Contains(l, "(exists")) {
			continue
		}
		if strings.HasPrefix(l, "(set-option :smt.mbqi") {
			continue
		}
		keep = append(keep, l)
	}
	smt := strings.Replace(strings.Join(keep, "\n"), "(check-sat)", "(check-sat)\n(get-model)", 1)
	_, out, _ := runSolver(solvers[0], smt, 5)
	if len(out) > 20000 {
		out = out[:20000] + "\n...truncated"
	}
	return out
}
