package main

// Translation of contract expressions into SMT terms in a given symbolic state.

import (
	"fmt"
	"go/types"
	"strings"
)

type specError struct{ msg string }

func (e specError) Error() string { return e.msg }

func specFail(format string, args ...interface{}) {
	panic(specError{fmt.Sprintf(format, args...)})
}

type specCtx struct {
	fc        *fnCtx
	st        *State
	heap      map[string]string
	old       map[string]string
	now       string
	oldNow    string
	vars      map[string]Val
	params    map[string]Val
	result    []Val
	useNames  bool
	pkg       string
	tparamOf  map[string]types.Type
	inOld     bool
	expanding map[string]bool   // tracked objects whose model is being expanded (ownership is acyclic)
	preHeap   map[string]string // hints: the heap just before the call the hint is attached to
	preNow    string
	cells     map[string]Val // captured variables of the function under verification: name -> cell address
}

func (sc *specCtx) withVar(name string, v Val) *specCtx {
	n := *sc
	n.vars = make(map[string]Val, len(sc.vars)+1)
	for k, x := range sc.vars {
		n.vars[k] = x
	}
	n.vars[name] = v
	return &n
}

func intVal(t string) Val  { return Val{T: t, S: SInt} }
func boolVal(t string) Val { return Val{T: t, S: SBool} }

func (sc *specCtx) lookup(name string) (Val, bool) {
	if v, ok := sc.vars[name]; ok {
		return v, true
	}
	if name == "result" && len(sc.result) > 0 {
		if len(sc.result) == 1 {
			return sc.result[0], true
		}
		return Val{S: STuple, Tup: sc.result}, true
	}
	if cell, ok := sc.cells[name]; ok {
		return sc.cellContent(cell), true
	}
	if sc.useNames {
		if name == "$rpos" {
			if it, ok := sc.st.names["$iter"]; ok {
				r := sc.fc.regionIn(sc.st, sc.heap, "range.pos", "(Array U Int)")
				return intVal(sel(r, it.T)), true
			}
		}
		if cell, ok := sc.st.names["&"+name]; ok {
			return sc.cellContent(cell), true
		}
		if v, ok := sc.st.names[name]; ok {
			return v, true
		}
		// a loop clause adopted by a callee executed in place may still name variables of the enclosing function
		for i := len(sc.st.outer) - 1; i >= 0; i-- {
			if v, ok := sc.st.outer[i][name]; ok {
				return v, true
			}
		}
	}
	if v, ok := sc.params[name]; ok {
		return v, true
	}
	if cell, ok := sc.cells[name]; ok {
		return sc.cellContent(cell), true
	}
	switch name {
	case "nil":
		return Val{T: "nil", S: SU}, true
	case "Lesser":
		return intVal("0"), true
	case "Equal":
		return intVal("1"), true
	case "Greater":
		return intVal("2"), true
	case "MAXLEN":
		return intVal("MAXLEN"), true
	case "MAXLEN2":
		return intVal("MAXLEN2"), true
	case "now":
		return intVal(sc.now), true
	}
	return Val{}, false
}

// cellContent: the value a captured variable holds in the heap the context evaluates in
func (sc *specCtx) cellContent(cell Val) Val {
	var et types.Type
	es := SU
	if pt, ok := cell.GT.Underlying().(*types.Pointer); ok {
		et = pt.Elem()
		es = sortOfType(et)
	}
	rn, rs := cellRegion(es)
	r := sc.fc.regionIn(sc.st, sc.heap, rn, rs)
	return Val{T: sel(r, cell.T), S: es, GT: et}
}

func (sc *specCtx) eval(e Expr) Val {
	switch e := e.(type) {
	case *IntLit:
		return intVal(e.Val)
	case *BoolLit:
		if e.Val {
			return boolVal("true")
		}
		return boolVal("false")
	case *StrLit:
		return sc.fc.strLit(sc.st, e.Val, nil)
	case *Ident:
		if v, ok := sc.lookup(e.Name); ok {
			return v
		}
		if sc.useNames {
			if alt, ok := sc.fc.renamed(e.Name); ok {
				if v, ok := sc.lookup(alt); ok {
					return v
				}
			}
		}
		specFail("unresolved identifier %q", e.Name)
	case *Unary:
		x := sc.eval(e.X)
		switch e.Op {
		case "!":
			sc.want(x, SBool, e)
			return boolVal(not(x.T))
		case "-":
			sc.want(x, SInt, e)
			return intVal("(- " + x.T + ")")
		}
	case *Binary:
		return sc.evalBinary(e)
	case *FieldE:
		return sc.evalField(e)
	case *IndexE:
		x := sc.eval(e.X)
		i := sc.eval(e.I)
		sc.want(i, SInt, e)
		switch x.S {
		case SSeq:
			return Val{T: app("sq_at", x.T, i.T), S: SU}
		case SSlice:
			es := SU
			var et types.Type
			if x.GT != nil {
				if sl, ok := x.GT.Underlying().(*types.Slice); ok {
					es = sortOfType(sl.Elem())
					et = sl.Elem()
				}
			}
			rn, rs := elemsRegion(es)
			r := sc.fc.regionIn(sc.st, sc.heap, rn, rs)
			if es == SU {
				// through the sequence view: quantifier patterns then avoid arithmetic
				return Val{T: app("sq_at", app("sq_of", sel(r, app("sl_arr", x.T)), app("sl_off", x.T), app("sl_len", x.T)), i.T), S: es, GT: et}
			}
			if es == SInt {
				return Val{T: app("sl_ielem", sel(r, app("sl_arr", x.T)), app("sl_off", x.T), i.T), S: es, GT: et}
			}
			return Val{T: sel(sel(r, app("sl_arr", x.T)), fmt.Sprintf("(+ (sl_off %s) %s)", x.T, i.T)), S: es, GT: et}
		case STuple:
			specFail("cannot index a tuple with [] (use result.N)")
		}
		specFail("cannot index %s (sort %s)", e.X, x.S.Short())
	case *SliceE:
		x := sc.eval(e.X)
		if x.S == SSlice {
			// a Go sub-slice, built exactly as the SSA Slice instruction builds it
			lo, hi := "0", app("sl_len", x.T)
			if e.Lo != nil {
				lo = sc.eval(e.Lo).T
			}
			if e.Hi != nil {
				hi = sc.eval(e.Hi).T
			}
			return Val{T: fmt.Sprintf("(mk_slice (sl_arr %s) (+ (sl_off %s) %s) (- %s %s) (- (sl_cap %s) %s))", x.T, x.T, lo, hi, lo, x.T, lo), S: SSlice, GT: x.GT}
		}
		if x.S != SSeq {
			specFail("cannot slice %s", e.X)
		}
		lo, hi := "0", app("sq_len", x.T)
		if e.Lo != nil {
			lo = sc.eval(e.Lo).T
		}
		if e.Hi != nil {
			hi = sc.eval(e.Hi).T
		}
		return Val{T: app("sq_slice", x.T, lo, hi), S: SSeq}
	case *Quant:
		n := *sc
		n.vars = make(map[string]Val, len(sc.vars)+len(e.Vars))
		for k, x := range sc.vars {
			n.vars[k] = x
		}
		var binders []string
		for _, v := range e.Vars {
			s := SInt
			switch v.Sort {
			case "", "Int", "int":
				s = SInt
			case "U":
				s = SU
			case "Bool":
				s = SBool
			case "Seq":
				s = SSeq
			case "Str":
				s = SStr
			case "F64":
				s = SF64
			case "Cplx":
				s = SC128
			default:
				specFail("unknown sort %q for quantified variable", v.Sort)
			}
			bn := "q_" + v.Name
			n.vars[v.Name] = Val{T: bn, S: s}
			binders = append(binders, fmt.Sprintf("(%s %s)", bn, s.SMT()))
		}
		body := n.eval(e.Body)
		sc.want(body, SBool, e)
		q := "exists"
		if e.Forall {
			q = "forall"
		}
		bt := body.T
		if len(e.Triggers) > 0 {
			var pats []string
			for _, tr := range e.Triggers {
				var ts []string
				for _, x := range tr {
					ts = append(ts, n.eval(x).T)
				}
				pats = append(pats, ":pattern ("+strings.Join(ts, " ")+")")
			}
			bt = fmt.Sprintf("(! %s %s)", bt, strings.Join(pats, " "))
		}
		return boolVal(fmt.Sprintf("(%s (%s) %s)", q, strings.Join(binders, " "), bt))
	case *CallE:
		return sc.evalCall(e)
	}
	specFail("cannot evaluate %T", e)
	return Val{}
}

func (sc *specCtx) want(v Val, s Sort, e Expr) {
	if v.S != s {
		specFail("expression %s: expected sort %s, found %s", e, s.Short(), v.S.Short())
	}
}

func (sc *specCtx) evalBinary(e *Binary) Val {
	x := sc.eval(e.X)
	y := sc.eval(e.Y)
	switch e.Op {
	case "&&":
		sc.want(x, SBool, e.X)
		sc.want(y, SBool, e.Y)
		return boolVal(and(x.T, y.T))
	case "||":
		sc.want(x, SBool, e.X)
		sc.want(y, SBool, e.Y)
		return boolVal(or(x.T, y.T))
	case "==>":
		sc.want(x, SBool, e.X)
		sc.want(y, SBool, e.Y)
		return boolVal(implies(x.T, y.T))
	case "<==>":
		sc.want(x, SBool, e.X)
		sc.want(y, SBool, e.Y)
		return boolVal(eq(x.T, y.T))
	case "==", "!=":
		if x.S == SSlice && y.S == SSeq {
			x = sc.viewOfSlice(x)
		}
		if y.S == SSlice && x.S == SSeq {
			y = sc.viewOfSlice(y)
		}
		boxOf := func(v Val) Val {
			switch v.S {
			case SInt, SBool, SStr, SF64, SC128, SSlice:
				b := app("box_"+v.S.Short(), v.T)
				if !strings.Contains(v.T, "q_") {
					// boxing is injective
					sc.st.pc = append(sc.st.pc, eq(app("unbox_"+v.S.Short(), b), v.T))
				}
				return Val{T: b, S: SU}
			}
			return v
		}
		if x.S == SU && y.S != SU {
			y = boxOf(y)
		}
		if y.S == SU && x.S != SU {
			x = boxOf(x)
		}
		if x.S != y.S {
			specFail("%s: comparing sorts %s and %s", e, x.S.Short(), y.S.Short())
		}
		var t string
		switch x.S {
		case SSeq:
			t = app("sq_eq", x.T, y.T)
		default:
			// on floats "==" in a specification is identity of the value (use feq for Go's ==)
			t = eq(x.T, y.T)
		}
		if e.Op == "!=" {
			t = not(t)
		}
		return boolVal(t)
	case "<", "<=", ">", ">=":
		sc.want(x, SInt, e.X)
		sc.want(y, SInt, e.Y)
		return boolVal(app(e.Op, x.T, y.T))
	case "+", "-", "*":
		sc.want(x, SInt, e.X)
		sc.want(y, SInt, e.Y)
		return intVal(app(e.Op, x.T, y.T))
	case "/":
		sc.want(x, SInt, e.X)
		sc.want(y, SInt, e.Y)
		return intVal(app("div", x.T, y.T))
	case "%":
		sc.want(x, SInt, e.X)
		sc.want(y, SInt, e.Y)
		return intVal(app("mod", x.T, y.T))
	case "++":
		if x.S == SSlice {
			x = sc.viewOfSlice(x)
		}
		if y.S == SSlice {
			y = sc.viewOfSlice(y)
		}
		sc.want(x, SSeq, e.X)
		sc.want(y, SSeq, e.Y)
		return Val{T: app("sq_concat", x.T, y.T), S: SSeq}
	}
	specFail("unknown operator %s", e.Op)
	return Val{}
}

func (sc *specCtx) evalField(e *FieldE) Val {
	x := sc.eval(e.X)
	if x.S == STuple {
		var i int
		if _, err := fmt.Sscan(e.Name, &i); err != nil || i < 0 || i >= len(x.Tup) {
			specFail("bad tuple component %s", e)
		}
		return x.Tup[i]
	}
	named, ok := derefNamed(x.GT)
	if !ok {
		specFail("field access %s: static type of %s is unknown or not a named struct", e, e.X)
	}
	st, ok := named.Underlying().(*types.Struct)
	if !ok {
		specFail("field access %s: %s is not a struct", e, named)
	}
	for i := 0; i < st.NumFields(); i++ {
		f := st.Field(i)
		if f.Name() == e.Name {
			fs := sortOfType(f.Type())
			if fn := sc.fc.e.immutableFn(named, f.Name()); fn != "" {
				return Val{T: app("u."+fn, x.T), S: fs, GT: f.Type()}
			}
			rn := fieldRegion(named.Origin(), f.Name())
			r := sc.fc.regionIn(sc.st, sc.heap, rn, regionArraySort(fs))
			v := Val{T: sel(r, x.T), S: fs, GT: f.Type()}
			if fs == SSlice && !strings.Contains(v.T, "q_") {
				sc.st.pc = append(sc.st.pc, fmt.Sprintf("(and (<= 0 (sl_off %s)) (<= 0 (sl_len %s)) (<= (sl_len %s) (sl_cap %s)) (<= (sl_cap %s) MAXLEN))", v.T, v.T, v.T, v.T, v.T))
			}
			if fs == SInt && !strings.Contains(v.T, "q_") {
				if lo, hi, ok := intRange(f.Type()); ok {
					sc.st.pc = append(sc.st.pc, fmt.Sprintf("(and (<= %s %s) (<= %s %s))", lo, v.T, v.T, hi))
				}
			}
			if fs == SU && !strings.Contains(v.T, "q_") && sc.now != "" && sc.now != "0" {
				switch f.Type().Underlying().(type) {
				case *types.Pointer, *types.Interface, *types.Map, *types.Chan:
					// heap well-formedness: what an allocated object refers to is allocated
					fact := fmt.Sprintf("(< (atime %s) %s)", v.T, sc.now)
					sc.st.pc = append(sc.st.pc, fact)
				}
			}
			return v
		}
	}
	specFail("type %s has no field %s", named.Obj().Name(), e.Name)
	return Val{}
}

func (sc *specCtx) viewOfSlice(x Val) Val {
	es := SU
	if x.GT != nil {
		if sl, ok := x.GT.Underlying().(*types.Slice); ok {
			es = sortOfType(sl.Elem())
		}
	}
	if es != SU {
		specFail("view of a slice with non-U elements (%s) is not supported", es.Short())
	}
	rn, rs := elemsRegion(es)
	r := sc.fc.regionIn(sc.st, sc.heap, rn, rs)
	return Val{T: app("sq_of", sel(r, app("sl_arr", x.T)), app("sl_off", x.T), app("sl_len", x.T)), S: SSeq}
}

// modelOf reads model field m of object x (sort U) in the context heap, taking
// tracked objects (whose representation is known) into account.
func (sc *specCtx) modelOf(m string, x Val) Val {
	msort, ok := sc.fc.e.contracts.Models[m]
	if !ok {
		specFail("unknown model field %q", m)
	}
	s := sortByName(msort)
	if x.S == SSlice {
		if m == "view" {
			return sc.viewOfSlice(x)
		}
		specFail("model %s of a slice", m)
	}
	if x.S != SU {
		specFail("model %s(%s): argument has sort %s", m, x.T, x.S.Short())
	}
	r := sc.fc.regionIn(sc.st, sc.heap, "M."+m, regionArraySort(s))
	t := sel(r, x.T)
	// static type known to be a concrete type with a model clause: expand directly
	if named, ok := derefNamed(x.GT); ok {
		if _, isIface := named.Underlying().(*types.Interface); !isIface {
			if v, ok := sc.expandModel(named, m, x); ok {
				return v
			}
		}
	}
	for i := len(sc.st.tracked) - 1; i >= 0; i-- {
		tr := sc.st.tracked[i]
		if sc.expanding[tr.ref] {
			continue
		}
		n := *sc
		n.expanding = map[string]bool{tr.ref: true}
		for k := range sc.expanding {
			n.expanding[k] = true
		}
		if v, ok := tr.expand(&n, m); ok {
			if tr.ref == x.T {
				return v
			}
			if v.T != t {
				t = fmt.Sprintf("(ite (= %s %s) %s %s)", x.T, tr.ref, v.T, t)
			}
		}
	}
	if strings.Contains(t, "(ite ") && !strings.Contains(t, "q_") {
		// name the term: e-matching patterns cannot contain ite
		n := sc.fc.declare(sc.st, "mdl_"+m, s.SMT())
		sc.st.pc = append(sc.st.pc, eq(n, t))
		t = n
	}
	return Val{T: t, S: s}
}

func sortByName(n string) Sort {
	switch n {
	case "Int":
		return SInt
	case "Bool":
		return SBool
	case "SeqU", "Seq":
		return SSeq
	case "U":
		return SU
	case "Str":
		return SStr
	case "F64":
		return SF64
	case "Cplx":
		return SC128
	}
	return SU
}

// immutableFn returns the pure function that stands for an immutable field, if declared.
func (e *Engine) immutableFn(named *types.Named, field string) string {
	pkg := ""
	if named.Obj().Pkg() != nil {
		pkg = named.Obj().Pkg().Name()
	}
	ts := e.contracts.Types[pkg+"."+named.Obj().Name()]
	if ts == nil {
		return ""
	}
	return ts.Immutable[field]
}

func (sc *specCtx) expandModel(named *types.Named, m string, x Val) (Val, bool) {
	pkg := ""
	if named.Obj().Pkg() != nil {
		pkg = named.Obj().Pkg().Name()
	}
	ts := sc.fc.e.contracts.Types[pkg+"."+named.Obj().Name()]
	if ts == nil {
		return Val{}, false
	}
	cl := ts.Models[m]
	if cl == nil {
		return Val{}, false
	}
	n := sc.withVar("this", Val{T: x.T, S: x.S, GT: ptrIfStruct(named)})
	return n.eval(cl.E), true
}

func ptrIfStruct(n *types.Named) types.Type {
	if _, ok := n.Underlying().(*types.Struct); ok {
		return types.NewPointer(n)
	}
	return n
}

func (sc *specCtx) evalCall(e *CallE) Val {
	args := func(n int) []Val {
		if len(e.Args) != n {
			specFail("%s expects %d arguments", e.Fun, n)
		}
		var vs []Val
		for _, a := range e.Args {
			vs = append(vs, sc.eval(a))
		}
		return vs
	}
	seqArg := func(v Val) Val {
		if v.S == SSlice {
			return sc.viewOfSlice(v)
		}
		if v.S != SSeq {
			specFail("%s: sequence expected, found %s", e, v.S.Short())
		}
		return v
	}
	uArg := func(v Val) Val {
		switch v.S {
		case SU:
			return v
		case SInt:
			return Val{T: app("box_Int", v.T), S: SU}
		case SBool:
			return Val{T: app("box_Bool", v.T), S: SU}
		case SStr:
			return Val{T: app("box_Str", v.T), S: SU}
		case SF64:
			return Val{T: app("box_F64", v.T), S: SU}
		case SC128:
			return Val{T: app("box_Cplx", v.T), S: SU}
		}
		specFail("%s: cannot box sort %s", e, v.S.Short())
		return v
	}
	if _, isModel := sc.fc.e.contracts.Models[e.Fun]; isModel {
		a := args(1)
		return sc.modelOf(e.Fun, a[0])
	}
	if d, ok := sc.fc.e.contracts.Defines[e.Fun]; ok {
		if len(e.Args) != len(d.Params) {
			specFail("%s expects %d arguments", e.Fun, len(d.Params))
		}
		// call-by-value: bind evaluated arguments
		n := *sc
		n.vars = make(map[string]Val, len(sc.vars)+len(d.Params))
		for k, x := range sc.vars {
			n.vars[k] = x
		}
		for i, p := range d.Params {
			n.vars[p] = sc.eval(e.Args[i])
		}
		return n.eval(d.Body)
	}
	switch e.Fun {
	case "old":
		if len(e.Args) != 1 {
			specFail("old expects one argument")
		}
		if sc.old == nil {
			specFail("old() is not available here")
		}
		n := *sc
		n.heap = sc.old
		n.now = sc.oldNow
		n.inOld = true
		return n.eval(e.Args[0])
	case "pre":
		if len(e.Args) != 1 {
			specFail("pre expects one argument")
		}
		if sc.preHeap == nil {
			specFail("pre() is only available in hints")
		}
		n := *sc
		n.heap = sc.preHeap
		n.now = sc.preNow
		return n.eval(e.Args[0])
	case "len":
		a := args(1)
		switch a[0].S {
		case SSeq:
			return intVal(app("sq_len", a[0].T))
		case SSlice:
			return intVal(app("sl_len", a[0].T))
		case SStr:
			return intVal(app("str_len", a[0].T))
		case SU:
			if a[0].GT != nil {
				if _, ok := a[0].GT.Underlying().(*types.Map); ok {
					r := sc.fc.regionIn(sc.st, sc.heap, "map.card", "(Array U Int)")
					return intVal(fmt.Sprintf("(ite (= %s nil) 0 %s)", a[0].T, sel(r, a[0].T)))
				}
			}
		}
		specFail("len of %s", e.Args[0])
	case "cap":
		a := args(1)
		return intVal(app("sl_cap", a[0].T))
	case "arr":
		a := args(1)
		return Val{T: app("sl_arr", a[0].T), S: SU}
	case "off":
		a := args(1)
		return intVal(app("sl_off", a[0].T))
	case "rawat":
		// rawat(slice, j): element j (absolute index) of the slice's backing array
		a := args(2)
		if a[0].S != SSlice {
			specFail("rawat of a non-slice")
		}
		rn, rs := elemsRegion(SU)
		r := sc.fc.regionIn(sc.st, sc.heap, rn, rs)
		return Val{T: sel(sel(r, app("sl_arr", a[0].T)), a[1].T), S: SU}
	case "ite":
		a := args(3)
		sc.want(a[0], SBool, e)
		if a[1].S != a[2].S {
			specFail("ite branches have different sorts")
		}
		return Val{T: fmt.Sprintf("(ite %s %s %s)", a[0].T, a[1].T, a[2].T), S: a[1].S, GT: a[1].GT}
	case "empty":
		args(0)
		return Val{T: "sq_empty", S: SSeq}
	case "zeros":
		a := args(2)
		return Val{T: app("sq_zeros", a[0].T, uArg(a[1]).T), S: SSeq}
	case "single":
		a := args(1)
		return Val{T: app("sq_single", uArg(a[0]).T), S: SSeq}
	case "insert":
		a := args(3)
		return Val{T: app("sq_insert", seqArg(a[0]).T, a[1].T, uArg(a[2]).T), S: SSeq}
	case "update":
		a := args(3)
		return Val{T: app("sq_update", seqArg(a[0]).T, a[1].T, uArg(a[2]).T), S: SSeq}
	case "remove":
		a := args(2)
		return Val{T: app("sq_remove", seqArg(a[0]).T, a[1].T), S: SSeq}
	case "slice":
		a := args(3)
		return Val{T: app("sq_slice", seqArg(a[0]).T, a[1].T, a[2].T), S: SSeq}
	case "concat":
		a := args(2)
		return Val{T: app("sq_concat", seqArg(a[0]).T, seqArg(a[1]).T), S: SSeq}
	case "rev":
		a := args(1)
		return Val{T: app("sq_rev", seqArg(a[0]).T), S: SSeq}
	case "at":
		a := args(2)
		return Val{T: app("sq_at", seqArg(a[0]).T, a[1].T), S: SU}
	case "seq":
		a := args(1)
		return seqArg(a[0])
	case "rank":
		a := args(3)
		return intVal(app("rankf", a[0].T, uArg(a[1]).T, uArg(a[2]).T))
	case "ceq":
		a := args(2)
		return boolVal(app("ceq", uArg(a[0]).T, uArg(a[1]).T))
	case "box":
		a := args(1)
		return uArg(a[0])
	case "unboxInt":
		a := args(1)
		return intVal(app("unbox_Int", a[0].T))
	case "flt", "fgt", "feq", "fle", "fge":
		a := args(2)
		sc.want(a[0], SF64, e)
		sc.want(a[1], SF64, e)
		op := map[string]string{"flt": "fp.lt", "fgt": "fp.gt", "feq": "fp.eq", "fle": "fp.leq", "fge": "fp.geq"}[e.Fun]
		return boolVal(app(op, a[0].T, a[1].T))
	case "isnan":
		a := args(1)
		sc.want(a[0], SF64, e)
		return boolVal(app("fp.isNaN", a[0].T))
	case "cgoeq":
		a := args(2)
		return boolVal(app("cplx_goeq", a[0].T, a[1].T))
	case "cre":
		a := args(1)
		return Val{T: app("cplx_re", a[0].T), S: SF64}
	case "cim":
		a := args(1)
		return Val{T: app("cplx_im", a[0].T), S: SF64}
	case "slt":
		a := args(2)
		sc.want(a[0], SStr, e)
		return boolVal(app("str_lt", a[0].T, a[1].T))
	case "chanlen", "chancap":
		a := args(1)
		rn := map[string]string{"chanlen": "chan.len", "chancap": "chan.cap"}[e.Fun]
		r := sc.fc.regionIn(sc.st, sc.heap, rn, "(Array U Int)")
		return intVal(sel(r, a[0].T))
	case "chanclosed":
		a := args(1)
		r := sc.fc.regionIn(sc.st, sc.heap, "chan.closed", "(Array U Bool)")
		return boolVal(sel(r, a[0].T))
	case "local":
		// local(x): the value a local variable of the function under verification has at this point
		// (in a postcondition: at the return)
		if id, ok := e.Args[0].(*Ident); ok && len(e.Args) == 1 {
			if cell, ok := sc.st.names["&"+id.Name]; ok {
				return sc.cellContent(cell)
			}
			if v, ok := sc.st.names[id.Name]; ok {
				return v
			}
			specFail("local(%s): no such local variable is in scope here", id.Name)
		}
		specFail("local(NAME)")
	case "lastresult":
		// lastresult(NAME): what the most recent call (on this path) of a function or method called NAME returned
		if id, ok := e.Args[0].(*Ident); ok && len(e.Args) == 1 {
			if v, ok := sc.st.lastRes[id.Name]; ok {
				return v
			}
			specFail("lastresult(%s): no call of %s precedes this point on the path", id.Name, id.Name)
		}
		specFail("lastresult(NAME)")
	case "boundrecv":
		// boundrecv(f): the receiver a method value is bound to (unconstrained for other function values)
		a := args(1)
		sc.fc.declareFun(sc.st, "boundrecv", "(U) U")
		return Val{T: app("boundrecv", a[0].T), S: SU}
	case "addrof":
		// addrof(NAME): the address of a package-level variable of the contract's package (e.g. a mutex)
		if id, ok := e.Args[0].(*Ident); ok && len(e.Args) == 1 {
			return Val{T: sc.fc.globalMutexAddr(sc.st, sc.pkg+"."+id.Name), S: SU}
		}
		specFail("addrof(NAME)")
	case "global":
		// global(NAME): the current value of a package-level variable of the contract's package
		if id, ok := e.Args[0].(*Ident); ok && len(e.Args) == 1 {
			rn := "global." + sc.pkg + "." + id.Name
			srt, ok := sc.fc.regionSort[rn]
			if !ok {
				srt = "U"
			}
			r := sc.fc.regionIn(sc.st, sc.heap, rn, srt)
			return Val{T: r, S: SU}
		}
		specFail("global(NAME)")
	case "deref":
		// deref(p): the value a pointer to a local cell (captured variable) holds
		a := args(1)
		var et types.Type
		es := SU
		if a[0].GT != nil {
			if pt, ok := a[0].GT.Underlying().(*types.Pointer); ok {
				et = pt.Elem()
				es = sortOfType(et)
			}
		}
		rn, rs := cellRegion(es)
		r := sc.fc.regionIn(sc.st, sc.heap, rn, rs)
		return Val{T: sel(r, a[0].T), S: es, GT: et}
	case "fieldaddr":
		// fieldaddr(x, f): the address &x.f as passed to methods of the field's type
		if len(e.Args) != 2 {
			specFail("fieldaddr(x, field)")
		}
		id, ok := e.Args[1].(*Ident)
		if !ok {
			specFail("fieldaddr(x, field): field name expected")
		}
		x := sc.eval(e.Args[0])
		named, ok := derefNamed(x.GT)
		if !ok {
			specFail("fieldaddr: static type of %s unknown", e.Args[0])
		}
		rn := fieldRegion(named.Origin(), id.Name)
		rid, has := sc.fc.e.regionIDs[rn]
		if !has {
			rid = len(sc.fc.e.regionIDs) + 1
			sc.fc.e.regionIDs[rn] = rid
		}
		return Val{T: fmt.Sprintf("(addr_of %d %s)", rid, x.T), S: SU}
	case "ssub":
		a := args(3)
		sc.want(a[0], SStr, e)
		return Val{T: app("str_sub", a[0].T, a[1].T, a[2].T), S: SStr}
	case "sconcat":
		a := args(2)
		sc.want(a[0], SStr, e)
		sc.want(a[1], SStr, e)
		return Val{T: app("str_concat", a[0].T, a[1].T), S: SStr}
	case "runes":
		a := args(1)
		sc.want(a[0], SStr, e)
		return intVal(app("str_runes", a[0].T))
	case "unboxSlice":
		a := args(1)
		v := Val{T: app("unbox_Slice", a[0].T), S: SSlice}
		// element type U: views of []V
		if sc.fc.fn != nil {
			if tps := sc.fc.fn.TypeParams(); tps != nil && tps.Len() > 0 {
				v.GT = types.NewSlice(tps.At(tps.Len() - 1))
			}
		}
		return v
	case "implementsiface":
		// implementsiface(x, "pkg.Iface[V]"): x is non-nil and its dynamic type implements the interface
		if len(e.Args) != 2 {
			specFail("implementsiface(x, \"Iface\")")
		}
		lit, ok := e.Args[1].(*StrLit)
		if !ok {
			specFail("implementsiface(x, \"Iface\"): string literal expected")
		}
		x := sc.eval(e.Args[0])
		return boolVal(and(not(eq(x.T, "nil")), app("implements", app("dyntype", x.T), fmt.Sprint(sc.fc.e.typeID("iface:"+lit.Val)))))
	case "unboxStr":
		a := args(1)
		return Val{T: app("unbox_Str", a[0].T), S: SStr}
	case "unboxBool":
		a := args(1)
		return boolVal(app("unbox_Bool", a[0].T))
	case "fresh":
		a := args(1)
		if sc.old == nil {
			specFail("fresh() is not available here")
		}
		switch a[0].S {
		case SU:
			return boolVal(fmt.Sprintf("(and (not (= %s nil)) (>= (atime %s) %s) (< (atime %s) %s))", a[0].T, a[0].T, sc.oldNow, a[0].T, sc.now))
		case SSlice:
			return boolVal(fmt.Sprintf("(or (= (sl_len %s) 0) (and (>= (atime (sl_arr %s)) %s) (< (atime (sl_arr %s)) %s)))", a[0].T, a[0].T, sc.oldNow, a[0].T, sc.now))
		}
		specFail("fresh of sort %s", a[0].S.Short())
	case "allocated":
		a := args(1)
		return boolVal(fmt.Sprintf("(< (atime %s) %s)", a[0].T, sc.now))
	case "zero":
		if len(e.Args) != 1 {
			specFail("zero(T) expects a type name")
		}
		id, ok := e.Args[0].(*Ident)
		if !ok {
			specFail("zero(T) expects a type name")
		}
		if t, ok := sc.tparamOf[id.Name]; ok && t != nil {
			z := sc.fc.zeroOf(sc.st, t)
			return z
		}
		return sc.fc.zeroByName(sc.st, id.Name)
	case "entry":
		if len(e.Args) != 1 {
			specFail("entry(param)")
		}
		id, ok := e.Args[0].(*Ident)
		if !ok {
			specFail("entry(param): parameter name expected")
		}
		if v, ok := sc.params[id.Name]; ok {
			return v
		}
		specFail("entry(%s): no such parameter", id.Name)
	case "unchanged":
		// unchanged(model): every object allocated at function entry has the same model value as at entry
		if len(e.Args) < 1 {
			specFail("unchanged(model, excluded...)")
		}
		id, ok := e.Args[0].(*Ident)
		if !ok {
			specFail("unchanged(model): model name expected")
		}
		var cur, ent string
		if id.Name == "elems" {
			rn, rs := elemsRegion(SU)
			cur = sc.fc.regionIn(sc.st, sc.heap, rn, rs)
			ent = sc.fc.regionIn(sc.st, sc.old, rn, rs)
		} else {
			ms, ok := sc.fc.e.contracts.Models[id.Name]
			if !ok || sc.old == nil {
				specFail("unchanged(%s): unknown model", id.Name)
			}
			cur = sc.fc.regionIn(sc.st, sc.heap, "M."+id.Name, regionArraySort(sortByName(ms)))
			ent = sc.fc.regionIn(sc.st, sc.old, "M."+id.Name, regionArraySort(sortByName(ms)))
		}
		guard := []string{fmt.Sprintf("(< (atime o) %s)", sc.oldNow)}
		for _, ex := range e.Args[1:] {
			x := sc.eval(ex)
			guard = append(guard, not(eq("o", x.T)))
		}
		return boolVal(fmt.Sprintf("(forall ((o U)) (! (=> %s (= (select %s o) (select %s o))) :pattern ((select %s o))))", and(guard...), cur, ent, cur))
	case "localfresh":
		a := args(1)
		top := sc.fc.top
		if top == nil {
			specFail("localfresh outside a function")
		}
		switch a[0].S {
		case SU:
			return boolVal(fmt.Sprintf("(>= (atime %s) %s)", a[0].T, top.entryT))
		case SSlice:
			return boolVal(fmt.Sprintf("(or (= (sl_len %s) 0) (>= (atime (sl_arr %s)) %s))", a[0].T, a[0].T, top.entryT))
		}
		specFail("localfresh of sort %s", a[0].S.Short())
	case "inv":
		if len(e.Args) != 2 {
			specFail("inv(Type, x)")
		}
		id, ok := e.Args[0].(*Ident)
		if !ok {
			specFail("inv(Type, x): type name expected")
		}
		x := sc.eval(e.Args[1])
		return sc.invOf(id.Name, x)
	case "typeis":
		// typeis(x, TypeName): dynamic type test
		if len(e.Args) != 2 {
			specFail("typeis(x, Type)")
		}
		id, ok := e.Args[1].(*Ident)
		if !ok {
			if tt, ok2 := sc.typeExprTerm(e.Args[1]); ok2 {
				x := sc.eval(e.Args[0])
				return boolVal(and(not(eq(x.T, "nil")), eq(app("dyntype", x.T), tt)))
			}
			specFail("typeis(x, Type): type name expected")
		}
		x := sc.eval(e.Args[0])
		if tt, ok := sc.typeExprTerm(e.Args[1]); ok {
			return boolVal(and(not(eq(x.T, "nil")), eq(app("dyntype", x.T), tt)))
		}
		// a type parameter of the function under verification, or a named type of the package
		if sc.fc.fn != nil {
			if tps := sc.fc.fn.TypeParams(); tps != nil {
				for i := 0; i < tps.Len(); i++ {
					if tps.At(i).Obj().Name() == id.Name {
						return boolVal(eq(app("dyntype", x.T), sc.fc.typeTerm(sc.st, tps.At(i))))
					}
				}
			}
		}
		return boolVal(eq(app("dyntype", x.T), fmt.Sprint(sc.fc.e.typeID(sc.pkg+"."+id.Name))))
	case "held":
		a := args(1)
		if sc.st.held[a[0].T] {
			return boolVal("true")
		}
		return boolVal("false")
	case "ghost":
		if len(e.Args) != 1 {
			specFail("ghost(name)")
		}
		id, ok := e.Args[0].(*Ident)
		if !ok {
			specFail("ghost(name)")
		}
		if t, ok := sc.st.ghost[id.Name]; ok {
			return intVal(t)
		}
		specFail("unknown ghost %s", id.Name)
	case "dom":
		a := args(2)
		r := sc.fc.regionIn(sc.st, sc.heap, "map.dom", "(Array U (Array U Bool))")
		return boolVal(and(not(eq(a[0].T, "nil")), sel(sel(r, a[0].T), uArg(a[1]).T)))
	case "get":
		a := args(2)
		r := sc.fc.regionIn(sc.st, sc.heap, "map.get", "(Array U (Array U U))")
		return Val{T: sel(sel(r, a[0].T), uArg(a[1]).T), S: SU}
	case "card":
		a := args(1)
		r := sc.fc.regionIn(sc.st, sc.heap, "map.card", "(Array U Int)")
		return intVal(fmt.Sprintf("(ite (= %s nil) 0 %s)", a[0].T, sel(r, a[0].T)))
	}
	if d, ok := sc.fc.e.contracts.Decls[e.Fun]; ok {
		a := args(len(d.Args))
		var ts []string
		for i, x := range a {
			want := sortByName(d.Args[i])
			if x.S == SSlice && want == SSeq {
				x = sc.viewOfSlice(x)
			}
			if want == SU && x.S != SU {
				x = uArg(x)
			}
			if x.S != want {
				specFail("%s: argument %d has sort %s, want %s", e, i+1, x.S.Short(), d.Args[i])
			}
			ts = append(ts, x.T)
		}
		if len(ts) == 0 {
			return Val{T: "u." + d.Name, S: sortByName(d.Res)}
		}
		return Val{T: app("u."+d.Name, ts...), S: sortByName(d.Res)}
	}
	specFail("unknown spec function %q", e.Fun)
	return Val{}
}

func (sc *specCtx) invOf(typeName string, x Val) Val {
	key := sc.pkg + "." + typeName
	ts := sc.fc.e.contracts.Types[key]
	named := sc.fc.e.typeByKey[key]
	if ts == nil || named == nil {
		specFail("no type contract for %s", key)
	}
	n := sc.withVar("this", Val{T: x.T, S: x.S, GT: ptrIfStruct(named)})
	var parts []string
	for _, inv := range ts.Invariants {
		v := n.eval(inv.E)
		n.want(v, SBool, inv.E)
		parts = append(parts, v.T)
	}
	return boolVal(and(parts...))
}

func (e *Engine) typeID(name string) int {
	if id, ok := e.typeIDs[name]; ok {
		return id
	}
	id := len(e.typeIDs) + 1
	e.typeIDs[name] = id
	return id
}

func (fc *fnCtx) zeroByName(st *State, name string) Val {
	switch name {
	case "int", "uint", "int64", "uint64", "int32", "rune", "byte", "uint8":
		return intVal("0")
	case "bool":
		return boolVal("false")
	case "any", "nil":
		return Val{T: "nil", S: SU}
	}
	// type parameter or other opaque type
	n := "zero." + sanitize(name)
	d := fmt.Sprintf("(declare-const %s U)", n)
	for _, x := range st.decls {
		if x == d {
			return Val{T: n, S: SU}
		}
	}
	st.decls = append(st.decls, d)
	return Val{T: n, S: SU}
}

// typeExprTerm translates a type expression of the contract language (a type parameter name,
// sliceof(T), mapof2(K, V), or a string literal naming a basic type) into the dynamic-type tag
// the engine uses for the corresponding Go type.
func (sc *specCtx) typeExprTerm(e Expr) (string, bool) {
	switch x := e.(type) {
	case *StrLit:
		return fmt.Sprint(sc.fc.e.typeID(x.Val)), true
	case *Ident:
		if sc.fc.fn != nil {
			if tps := sc.fc.fn.TypeParams(); tps != nil {
				for i := 0; i < tps.Len(); i++ {
					if tps.At(i).Obj().Name() == x.Name {
						return sc.fc.typeTerm(sc.st, tps.At(i)), true
					}
				}
			}
		}
		return "", false
	case *CallE:
		switch x.Fun {
		case "sliceof":
			if len(x.Args) == 1 {
				if t, ok := sc.typeExprTerm(x.Args[0]); ok {
					return fmt.Sprintf("(+ 1000001 (* 4 %s))", t), true
				}
			}
		case "mapof2":
			if len(x.Args) == 2 {
				k, ok1 := sc.typeExprTerm(x.Args[0])
				v, ok2 := sc.typeExprTerm(x.Args[1])
				if ok1 && ok2 {
					return sc.fc.mapTag(sc.st, k, v), true
				}
			}
		}
	}
	return "", false
}
