package main

// Concurrency primitives: channels, goroutines, guarded-by (filled in for C04-C06, C19).

import (
	"golang.org/x/tools/go/ssa"
)

func (fc *fnCtx) checkGuarded(st *State, fr *frame, ins ssa.Instruction, ad *Addr, write bool) {
	if fc.guardHook != nil {
		fc.guardHook(st, fr, ins, ad, write)
	}
}

func (fc *fnCtx) chanSend(st *State, fr *frame, ins *ssa.Send) {
	if fc.sendHook != nil {
		fc.sendHook(st, fr, ins)
		return
	}
	fc.unsupported("channel send")
}

func (fc *fnCtx) chanRecv(st *State, fr *frame, ins *ssa.UnOp) {
	if fc.recvHook != nil {
		fc.recvHook(st, fr, ins)
		return
	}
	fc.unsupported("channel receive")
}

func (fc *fnCtx) chanLen(st *State, fr *frame, call *ssa.Call, ch Val, k func(*State, Val)) {
	if fc.chanLenHook != nil {
		fc.chanLenHook(st, fr, call, ch, k)
		return
	}
	fc.unsupported("len of channel")
}

func (fc *fnCtx) chanClose(st *State, fr *frame, call *ssa.Call, ch Val, k func(*State, Val)) {
	if fc.closeHook != nil {
		fc.closeHook(st, fr, call, ch, k)
		return
	}
	fc.unsupported("close of channel")
}

func (fc *fnCtx) goStmt(st *State, fr *frame, ins *ssa.Go) {
	if fc.goHook != nil {
		fc.goHook(st, fr, ins)
		return
	}
	fc.unsupported("go statement")
}

func (fc *fnCtx) blockingCall(st *State, fr *frame, site string, spec *effSpec, recv *Val, args []Val) {
	if fc.blockHook != nil {
		fc.blockHook(st, fr, site, spec, recv, args)
	}
}
