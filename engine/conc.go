package main

// Concurrency primitives in their *sequential* reading: what one call does to the
// abstract state when it runs without interference (the "one atomic effect per call"
// half of a lock-based linearizability argument), plus guarded-by obligations
// (every access to a guarded field happens with its mutex held) and lock pairing.
// Interference between threads (Owicki–Gries stability) is not modelled.

import (
	"fmt"
	"go/types"
	"sort"
	"strings"

	"golang.org/x/tools/go/ssa"
)

func (fc *fnCtx) chanRegions(st *State) (ln, cp, cl string) {
	return fc.region(st, "chan.len", "(Array U Int)"), fc.region(st, "chan.cap", "(Array U Int)"), fc.region(st, "chan.closed", "(Array U Bool)")
}

// checkGuarded: a load or store of a field declared `guarded_by m: ...` needs held(&base.m).
func (fc *fnCtx) checkGuarded(st *State, fr *frame, ins ssa.Instruction, ad *Addr, write bool) (mutexAddr string) {
	if ad == nil || ad.Kind != "field" || ad.GT == nil {
		return
	}
	fa, ok := addrInstr(ins)
	if !ok {
		return
	}
	named, ok := derefNamed(fa.X.Type())
	if !ok {
		return
	}
	pkg := ""
	if named.Obj().Pkg() != nil {
		pkg = named.Obj().Pkg().Name()
	}
	ts := fc.e.contracts.Types[pkg+"."+named.Obj().Name()]
	if ts == nil || len(ts.GuardedBy) == 0 {
		return
	}
	stt := named.Underlying().(*types.Struct)
	fname := stt.Field(fa.Field).Name()
	mutex, guarded := ts.GuardedBy[fname]
	if !guarded {
		return
	}
	// an object allocated by this very function is still thread-confined: no lock needed
	rn := fieldRegion(named.Origin(), mutex)
	id, has := fc.e.regionIDs[rn]
	if !has {
		id = len(fc.e.regionIDs) + 1
		fc.e.regionIDs[rn] = id
	}
	maddr := fmt.Sprintf("(addr_of %d %s)", id, ad.Base)
	held := fc.region(st, "M.held", "(Array U Bool)")
	kind := "read"
	if write {
		kind = "write"
	}
	goal := fmt.Sprintf("(or (select %s %s) (>= (atime %s) %s))", held, maddr, ad.Base, fc.top.entryT)
	fc.emit(st, fc.oblName(fr, fmt.Sprintf("guarded.%s@%s", kind, fc.instrLabel(fr, ins))), "guarded",
		fmt.Sprintf("%s of %s.%s happens with %s held (or on an object this call allocated)", kind, named.Obj().Name(), fname, mutex), fc.posOf(ins), goal, []string{"C04", "C19"})
	if st.ghost == nil {
		st.ghost = map[string]string{}
	}
	st.ghost["owner:"+maddr] = ad.Base
	return maddr
}

// checkObjGuard: an object that was read out of a guarded field is itself protected by that mutex —
// a method call on it needs the mutex held at the time of the call (not only when the field was read),
// unless the owner was allocated by this very call.
func (fc *fnCtx) checkObjGuard(st *State, fr *frame, call *ssa.Call, recv Val) {
	g, ok := st.ghost["objguard:"+recv.T]
	if !ok {
		return
	}
	held := fc.region(st, "M.held", "(Array U Bool)")
	goal := sel(held, g)
	if owner, ok := st.ghost["owner:"+g]; ok {
		goal = fmt.Sprintf("(or %s (>= (atime %s) %s))", goal, owner, fc.top.entryT)
	}
	fc.emit(st, fc.oblName(fr, fmt.Sprintf("guarded.call@%s", fc.instrLabel(fr, call))), "guarded",
		"a method call on an object read from a guarded field happens with the guarding mutex held", fc.posOf(call), goal, []string{"C04", "C19"})
}

// noLockWhileBlocking: a channel operation that may block must not be reached with a mutex held that this
// function acquired (or that guards the receiver): the thread that could unblock it needs that mutex.
func (fc *fnCtx) noLockWhileBlocking(st *State, fr *frame, ins ssa.Instruction, what string) {
	held := fc.region(st, "M.held", "(Array U Bool)")
	var conj []string
	for k, v := range st.ghost {
		if strings.HasPrefix(k, "lockseen:") {
			conj = append(conj, not(sel(held, v)))
		}
	}
	if len(conj) == 0 {
		return
	}
	sort.Strings(conj)
	fc.emit(st, fc.oblName(fr, fmt.Sprintf("nolock.%s@%s", what, fc.instrLabel(fr, ins))), "guarded",
		"no mutex acquired by this call is held at a channel operation that may block", fc.posOf(ins), and(conj...), []string{"C04", "C05"})
}

// globalMutexAddr: the address term of a package-level mutex variable (what Lock/Unlock receive).
func (fc *fnCtx) globalMutexAddr(st *State, qualified string) string {
	return fc.addrTerm(st, &Addr{Kind: "global", Region: "global." + qualified})
}

// checkGlobalAccess: a package-level variable declared `global NAME guarded_by MUTEX` is read and
// written only with the mutex held; a write to any other package-level variable by a function under
// contract needs `modifies global(NAME)` (C19: instances and classes share no hidden mutable state).
func (fc *fnCtx) checkGlobalAccess(st *State, fr *frame, ins ssa.Instruction, ad *Addr, write bool) (guard string) {
	q := strings.TrimPrefix(ad.Region, "global.")
	kind := "read"
	if write {
		kind = "write"
	}
	if g := fc.e.contracts.GlobalGuard[q]; g != "" {
		maddr := fc.globalMutexAddr(st, g)
		held := fc.region(st, "M.held", "(Array U Bool)")
		fc.emit(st, fc.oblName(fr, fmt.Sprintf("guarded.%s.global.%s@%s", kind, q[strings.Index(q, ".")+1:], fc.instrLabel(fr, ins))), "guarded",
			fmt.Sprintf("%s of package-level variable %s happens with %s held", kind, q, g), fc.posOf(ins), sel(held, maddr), []string{"C19"})
		return maddr
	}
	if write {
		fc.checkWrite(st, fr, fc.instrLabel(fr, ins), ad.Region, "")
	}
	return ""
}

// checkMapGuard: operations on a map that was loaded from a guarded package-level variable need the mutex too.
func (fc *fnCtx) checkMapGuard(st *State, fr *frame, ins ssa.Instruction, m Val, write bool) {
	g, ok := st.ghost["guard:"+m.T]
	if !ok {
		return
	}
	kind := "read"
	if write {
		kind = "write"
	}
	held := fc.region(st, "M.held", "(Array U Bool)")
	fc.emit(st, fc.oblName(fr, fmt.Sprintf("guarded.map%s@%s", kind, fc.instrLabel(fr, ins))), "guarded",
		kind+" of a registry map happens with its mutex held", fc.posOf(ins), sel(held, g), []string{"C19"})
}

// addrInstr finds the FieldAddr behind a load/store instruction.
func addrInstr(ins ssa.Instruction) (*ssa.FieldAddr, bool) {
	switch x := ins.(type) {
	case *ssa.UnOp:
		fa, ok := x.X.(*ssa.FieldAddr)
		return fa, ok
	case *ssa.Store:
		fa, ok := x.Addr.(*ssa.FieldAddr)
		return fa, ok
	}
	return nil, false
}

func (fc *fnCtx) chanSend(st *State, fr *frame, ins *ssa.Send) {
	ch := fc.val(st, ins.Chan)
	ln, cp, cl := fc.chanRegions(st)
	fc.runtimeCheck(st, fr, ins, "closedchan", sel(cl, ch.T))
	full := fmt.Sprintf("(>= (select %s %s) (select %s %s))", ln, ch.T, cp, ch.T)
	if fc.eff.flags["mayblock"] {
		fc.noLockWhileBlocking(st, fr, ins, "send")
		// the call may park here; it continues only when there is room
		st.pc = append(st.pc, not(full), not(eq(ch.T, "nil")))
	} else {
		fc.emit(st, fc.oblName(fr, "noblock.send@"+fc.instrLabel(fr, ins)), "noblock", "the channel send cannot block", fc.posOf(ins), and(not(full), not(eq(ch.T, "nil"))), nil)
		st.pc = append(st.pc, not(full))
	}
	fc.setRegion(st, "chan.len", "(Array U Int)", store(ln, ch.T, fmt.Sprintf("(+ (select %s %s) 1)", ln, ch.T)))
}

func (fc *fnCtx) chanRecv(st *State, fr *frame, ins *ssa.UnOp) {
	ch := fc.val(st, ins.X)
	ln, _, cl := fc.chanRegions(st)
	elem := ins.X.Type().Underlying().(*types.Chan).Elem()
	empty := fmt.Sprintf("(<= (select %s %s) 0)", ln, ch.T)
	closed := sel(cl, ch.T)
	wouldBlock := and(empty, not(closed))
	if fc.eff.flags["mayblock"] {
		fc.noLockWhileBlocking(st, fr, ins, "recv")
		st.pc = append(st.pc, not(wouldBlock), not(eq(ch.T, "nil")))
	} else {
		fc.emit(st, fc.oblName(fr, "noblock.recv@"+fc.instrLabel(fr, ins)), "noblock", "the channel receive cannot block", fc.posOf(ins), and(not(wouldBlock), not(eq(ch.T, "nil"))), nil)
		st.pc = append(st.pc, not(wouldBlock))
	}
	okN := fc.declare(st, "recvok", "Bool")
	st.pc = append(st.pc, eq(okN, not(empty)))
	v := fc.freshVal(st, "recv", elem)
	z := fc.zeroOf(st, elem)
	st.pc = append(st.pc, implies(not(okN), eq(v.T, z.T)))
	fc.setRegion(st, "chan.len", "(Array U Int)", store(ln, ch.T, fmt.Sprintf("(ite %s (- (select %s %s) 1) (select %s %s))", okN, ln, ch.T, ln, ch.T)))
	if ins.CommaOk {
		st.env[ins] = Val{S: STuple, Tup: []Val{v, {T: okN, S: SBool}}}
	} else {
		st.env[ins] = v
	}
}

func (fc *fnCtx) chanLen(st *State, fr *frame, call *ssa.Call, ch Val, k func(*State, Val)) {
	ln, _, _ := fc.chanRegions(st)
	v := Val{T: fmt.Sprintf("(ite (= %s nil) 0 (select %s %s))", ch.T, ln, ch.T), S: SInt, GT: call.Type()}
	k(st, v)
}

func (fc *fnCtx) chanClose(st *State, fr *frame, call *ssa.Call, ch Val, k func(*State, Val)) {
	_, _, cl := fc.chanRegions(st)
	fc.runtimeCheck(st, fr, call, "closedchan", or(eq(ch.T, "nil"), sel(cl, ch.T)))
	fc.setRegion(st, "chan.closed", "(Array U Bool)", store(cl, ch.T, "true"))
	k(st, Val{S: STuple})
}

// goStmt: spawning a goroutine has no effect on the spawning thread's state; the closure body is
// verified separately under its own contract (key F$n). Objects captured by the closure stop
// being thread-confined, which the engine does not track: recorded as an assumption.
func (fc *fnCtx) goStmt(st *State, fr *frame, ins *ssa.Go) {
	fc.e.warnings[fmt.Sprintf("goroutine spawned in %s: its body is verified separately; captured objects are shared from here on (not tracked)", fr.key)] = true
	// the spawned function's preconditions must hold at the spawn point
	c := ins.Common()
	var callee *ssa.Function
	args := fc.callArgs(st, c)
	if mc, ok := c.Value.(*ssa.MakeClosure); ok {
		callee = mc.Fn.(*ssa.Function)
		for i, b := range mc.Bindings {
			bv := fc.val(st, b)
			if pt, ok := callee.FreeVars[i].Type().Underlying().(*types.Pointer); ok && bv.S == SU {
				// the contract of a closure names captured variables by their value
				es := sortOfType(pt.Elem())
				rn, rs := cellRegion(es)
				bv = Val{T: sel(fc.region(st, rn, rs), bv.T), S: es, GT: pt.Elem()}
			}
			args = append(args, bv)
		}
	} else if f := c.StaticCallee(); f != nil {
		callee = f
	}
	site := fc.instrLabel(fr, ins)
	if callee == nil {
		fc.unsupported("go statement with a dynamic callee")
	}
	k := fc.e.keyOf(callee)
	fs := fc.e.contracts.Funcs[k]
	if fs == nil {
		fc.emit(st, fc.oblName(fr, "spawn@"+site+".contract"), "pre", "the spawned function "+k+" has a contract", fc.posOf(ins), "false", nil)
	} else {
		spec := fc.e.effective(fs, k)
		lets := map[string]Val{}
		// a spawned method: its receiver is the first operand
		var recv *Val
		if _, isClosure := c.Value.(*ssa.MakeClosure); !isClosure && callee.Signature.Recv() != nil && len(args) > 0 {
			r := args[0]
			recv = &r
			args = args[1:]
			// the type invariant the method assumes of its receiver must hold when the goroutine is started
			if ts, named := fc.e.typeSpecOf(originOf(callee)); ts != nil && named != nil && !spec.flags["noinv"] {
				sc := fc.specCtxFor(st, fr)
				n := sc.withVar("this", Val{T: r.T, S: r.S, GT: ptrIfStruct(named)})
				for _, inv := range ts.Invariants {
					name := fc.oblName(fr, fmt.Sprintf("pre@%s.%s.inv%d", site, shortKey(spec.key), inv.Ord))
					if g := fc.evalBoolClause(n, inv, name); g != "" {
						fc.emit(st, name, "pre", inv.Text, clauseLoc(inv), g, inv.Tags)
					}
				}
			}
		}
		eval := func(c effClause, want Sort, check bool) (v Val, ok bool) {
			defer func() {
				if r := recover(); r != nil {
					if se, isS := r.(specError); isS {
						fc.contractError(st, c.Clause, se.msg+" [at spawn site "+site+" in "+fr.key+"]")
						ok = false
						return
					}
					panic(r)
				}
			}()
			sc := fc.calleeCtx(st, spec, c.params, recv, args, nil)
			sc.old, sc.oldNow = st.heap, st.now
			for n, lv := range lets {
				sc.vars[n] = lv
			}
			v = sc.eval(c.E)
			if check {
				sc.want(v, want, c.E)
			}
			return v, true
		}
		for _, l := range spec.lets {
			if v, ok := eval(l, SU, false); ok {
				lets[l.Name] = v
			}
		}
		for _, r := range spec.requires {
			if v, ok := eval(r, SBool, true); ok {
				fc.emit(st, fc.oblName(fr, fmt.Sprintf("pre@%s.%s.requires%d", site, shortKey(spec.key), r.Ord)), "pre", r.Text, clauseLoc(r.Clause), v.T, nil)
			}
		}
	}
	n := fc.declare(st, "now", "Int")
	st.pc = append(st.pc, fmt.Sprintf("(>= %s %s)", n, st.now))
	st.now = n
}

func (fc *fnCtx) blockingCall(st *State, fr *frame, site string, spec *effSpec, recv *Val, args []Val) {
}

// lockInvariant (interference pass). After Lock: everything the mutex guards may have been changed by other
// threads since this thread last looked — the guarded fields get fresh values constrained only by the type's
// lock invariant. Before Unlock: the lock invariant must hold again (obligation).
func (fc *fnCtx) lockInvariant(st *State, fr *frame, c *ssa.CallCommon, site string, release bool) {
	if len(c.Args) == 0 {
		return
	}
	fa, ok := c.Args[0].(*ssa.FieldAddr)
	if !ok {
		return
	}
	named, ok := derefNamed(fa.X.Type())
	if !ok {
		return
	}
	pkg := ""
	if named.Obj().Pkg() != nil {
		pkg = named.Obj().Pkg().Name()
	}
	ts := fc.e.contracts.Types[pkg+"."+named.Obj().Name()]
	if ts == nil {
		return
	}
	stt := named.Underlying().(*types.Struct)
	mutexField := stt.Field(fa.Field).Name()
	owner := fc.val(st, fa.X)
	if !release {
		for i := 0; i < stt.NumFields(); i++ {
			f := stt.Field(i)
			if ts.GuardedBy[f.Name()] != mutexField {
				continue
			}
			rn := fieldRegion(named.Origin(), f.Name())
			srt := regionArraySort(sortOfType(f.Type()))
			cur := fc.region(st, rn, srt)
			h := fc.declare(st, "interf", sortOfType(f.Type()).SMT())
			fc.setRegion(st, rn, srt, store(cur, owner.T, h))
		}
	}
	sc := fc.specCtxFor(st, fr)
	sc.vars["this"] = Val{T: owner.T, S: SU, GT: fa.X.Type()}
	for _, inv := range ts.LockInv {
		name := fc.oblName(fr, fmt.Sprintf("lockinv%d@unlock", inv.Ord)) // one obligation per function, one query per release point
		g := fc.evalBoolClause(sc, inv, name)
		if g == "" {
			continue
		}
		if release {
			fc.emit(st, name, "lockinv", inv.Text, clauseLoc(inv), g, inv.Tags)
		} else {
			st.pc = append(st.pc, g)
		}
	}
}
