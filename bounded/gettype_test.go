// props: C07 C08 C02 C15
// package: v4/agent
// function: agent.(*collator_).getType
// bound: every predeclared Go kind (19) x {T, *T, []T, [3]T, map[string]T, map[T]bool where comparable}, interface{}, named and generic named types (exhaustive over this finite domain)
// why: the classification is string matching on reflect.Type.String() (strings.HasPrefix/Index); the contract language has no theory of string prefixes, so getType's result is the uninterpreted function gtype() in the contracts of rankValues/compareValues
package agent

import (
	ref "reflect"
	tes "testing"
)

type verifBoundedNamed struct{ a int }
type verifBoundedGeneric[T any] struct{ a T }

// TestVerifBounded checks the type-name classification the collator ranks mixed-type values by: two values are
// "of the same type" for ranking exactly when their classes are equal, so distinct kinds must keep distinct classes
// (all signed widths but int32 = integer, int32 = rune, all unsigned widths but uint8 = unsigned, uint8 = byte).
func TestVerifBounded(t *tes.T) {
	var c = &collator_[any]{}
	var n = 0
	var check = func(x ref.Type, want string) {
		n++
		if got := c.getType(x); got != want {
			t.Errorf("BOUNDED-FAIL getType(%v) = %q, want %q", x, got, want)
		}
	}
	var kinds = []struct {
		v    any
		want string
	}{
		{false, "boolean"},
		{int(0), "integer"}, {int8(0), "integer"}, {int16(0), "integer"}, {int32(0), "rune"}, {int64(0), "integer"},
		{uint(0), "unsigned"}, {uint8(0), "byte"}, {uint16(0), "unsigned"}, {uint32(0), "unsigned"}, {uint64(0), "unsigned"}, {uintptr(0), "unsigned"},
		{float32(0), "float"}, {float64(0), "float"},
		{complex64(0), "complex"}, {complex128(0), "complex"},
		{"", "string"},
	}
	for _, k := range kinds {
		var ty = ref.TypeOf(k.v)
		check(ty, k.want)
		check(ref.PointerTo(ty), k.want)
		check(ref.SliceOf(ty), "array")
		check(ref.ArrayOf(3, ty), "array")
		check(ref.MapOf(ref.TypeOf(""), ty), "map")
		check(ref.MapOf(ty, ref.TypeOf(false)), "map")
		check(ref.PointerTo(ref.SliceOf(ty)), "array")
	}
	var anyType = ref.TypeOf((*any)(nil)).Elem()
	check(anyType, "any")
	check(ref.SliceOf(anyType), "array")
	check(ref.MapOf(ref.TypeOf(""), anyType), "map")
	check(ref.TypeOf(verifBoundedNamed{}), "agent.verifBoundedNamed")
	check(ref.TypeOf(&verifBoundedNamed{}), "agent.verifBoundedNamed")
	check(ref.TypeOf(verifBoundedGeneric[int]{}), "agent.verifBoundedGeneric")
	check(ref.TypeOf(&verifBoundedGeneric[string]{}), "agent.verifBoundedGeneric")
	// distinct classes never collide (what ranking mixed-type values relies on)
	for _, a := range kinds {
		for _, b := range kinds {
			n++
			if (a.want == b.want) != (c.getType(ref.TypeOf(a.v)) == c.getType(ref.TypeOf(b.v))) {
				t.Errorf("BOUNDED-FAIL classes of %T and %T: %q vs %q", a.v, b.v, c.getType(ref.TypeOf(a.v)), c.getType(ref.TypeOf(b.v)))
			}
		}
	}
	if !t.Failed() {
		t.Logf("BOUNDED-OK n=%d cases", n)
	}
}
