// props: C10 C11 C12
// package: v4/cdcn
// function: cdcn.(*scannerClass_).MatchToken with the string_ / rune_ / escape_ patterns, and the ParseSource path behind them
// bound: (a) every string of length <= 3 over a 14-character alphabet (letters, double and single quote, backslash, space, tab, newline, NUL, bell, U+00E9, U+1F600) = 2955 strings x 5 right contexts; every rune in 0..0x2FF plus 8 astral / special runes; (b) all 12 token patterns x 30 x 30 two-part probe texts: no pattern matches the empty string; exhaustive over this finite domain
// bound-thorough: as above with strings of length <= 4 (41 371 strings) and every rune below 0x3000
// why: token acceptance is decided by regular expressions (package regexp); the contracts treat regexp matching as an assumed library function, so which prefix a pattern matches cannot be stated in them
package cdcn

import (
	"os"
	stc "strconv"
	tes "testing"

	col "github.com/craterdog/go-collection-framework/v4/collection"
)

// TestVerifBounded: the text the formatter writes for a string or a rune (strconv.Quote / QuoteRune) is scanned as
// exactly one token of that kind whatever follows it, and parses back to the same value (C10 round trip, C11
// "accepted with its intended meaning").
func TestVerifBounded(t *tes.T) {
	var n = 0
	var fails = 0
	var fail = func(format string, args ...any) {
		fails++
		if fails <= 10 {
			t.Errorf("BOUNDED-FAIL "+format, args...)
		}
	}
	var alphabet = []string{"a", "n", "x", "0", "\"", "'", "\\", " ", "\t", "\n", "\x00", "\a", "é", "\U0001F600"}
	var contents = []string{""}
	var frontier = []string{""}
	var maxLength = 3
	var maxRune = rune(0x300)
	if os.Getenv("VERIF_BOUNDED_TIER") == "thorough" {
		maxLength = 4
		maxRune = 0x3000
	}
	for length := 1; length <= maxLength; length++ {
		var next []string
		for _, prefix := range frontier {
			for _, c := range alphabet {
				next = append(next, prefix+c)
			}
		}
		contents = append(contents, next...)
		frontier = next
	}
	var contexts = []string{"", "\"", "]", ", \"b\"]", "\n"}
	for _, content := range contents {
		var text = stc.Quote(content)
		for _, context := range contexts {
			n++
			var matches = Scanner().MatchToken(StringToken, text+context)
			if matches.IsEmpty() || matches.GetValue(1) != text {
				var got = "<no match>"
				if !matches.IsEmpty() {
					got = matches.GetValue(1)
				}
				fail("string token: scanning %q matched %q, want %q", text+context, got, text)
			}
		}
		n++
		var parsed = verifBoundedParse("[" + text + "](List)")
		if list, ok := parsed.(col.ListLike[any]); !ok || list.GetSize() != 1 || list.GetValue(1) != any(content) {
			fail("string literal %s parses to %v, want the one-element list of %q", text, parsed, content)
		}
	}
	var runes []rune
	for r := rune(0); r < maxRune; r++ {
		runes = append(runes, r)
	}
	runes = append(runes, 0x2028, 0xD7FF, 0xE000, 0xFFFD, 0xFFFF, 0x10000, 0x1F600, 0x10FFFF)
	for _, r := range runes {
		var text = stc.QuoteRune(r)
		for _, context := range []string{"", "'", "]", ", 'b']"} {
			n++
			var matches = Scanner().MatchToken(RuneToken, text+context)
			if matches.IsEmpty() || matches.GetValue(1) != text {
				fail("rune token: scanning %q does not match %q", text+context, text)
			}
		}
		n++
		var parsed = verifBoundedParse("[" + text + "](List)")
		if list, ok := parsed.(col.ListLike[any]); !ok || list.GetSize() != 1 || list.GetValue(1) != any(r) {
			fail("rune literal %s parses to %v, want the one-element list of %q", text, parsed, r)
		}
	}
	// no token pattern matches the empty string (the progress assumption behind the scanner loop's variant)
	var kinds = []TokenType{BooleanToken, ComplexToken, DelimiterToken, EOLToken, FloatToken, HexadecimalToken,
		IntegerToken, NilToken, RuneToken, SpaceToken, StringToken, TypeToken}
	var probes = append([]string{"", "+", "-", "0", "0x", "(", ")", "e", ".", "1", "t", "f", "A", "\"", "'", "\\"}, alphabet...)
	for _, kind := range kinds {
		for _, left := range probes {
			for _, right := range probes {
				n++
				var matches = Scanner().MatchToken(kind, left+right)
				if !matches.IsEmpty() && len(matches.GetValue(1)) == 0 {
					fail("token type %d matches the empty string at the start of %q", kind, left+right)
				}
			}
		}
	}
	if fails == 0 {
		t.Logf("BOUNDED-OK n=%d cases", n)
	} else {
		t.Logf("%d failing cases in all", fails)
	}
}

func verifBoundedParse(source string) (result any) {
	defer func() {
		if e := recover(); e != nil {
			result = e
		}
	}()
	return Parser().Make().ParseSource(source)
}
