// props: C10 C11
// package: v4/cdcn
// function: cdcn.(*formatter_).formatFloat / formatComplex / formatInteger / formatUnsigned against the scanner's float_/complex_/integer_/hexadecimal_ patterns and parseIntrinsic
// bound: floats = 5 mantissas x 25 decimal exponents in -324..308 x 2 signs, +-0, Inf excluded, NaN excluded; complex = all pairs over 10 floats (with both zeros, both exponent ranges); int64 = 41 boundary values; uint64 = 20 boundary values; exhaustive over this finite domain
// why: which literal texts strconv prints and which the scanner's regular expressions accept are properties of two libraries the contracts only assume
package cdcn

import (
	"math"
	tes "testing"
)

// TestVerifBounded: a number written by the formatter is accepted by the parser and denotes bit-for-bit the same
// number (C10 round trip of literal values; C11 every numeric literal the formatter can write is a sentence).
func TestVerifBounded(t *tes.T) {
	var n = 0
	var fails = 0
	var fail = func(format string, args ...any) {
		fails++
		if fails <= 10 {
			t.Errorf("BOUNDED-FAIL "+format, args...)
		}
	}
	var roundTrip = func(value any) (text string, result any) {
		defer func() {
			if e := recover(); e != nil {
				result = e
			}
		}()
		text = Formatter().Make().FormatValue([]any{value})
		var parsed = Parser().Make().ParseSource(text)
		var sequence, ok = parsed.(interface{ AsArray() []any })
		if !ok {
			return text, parsed
		}
		var array = sequence.AsArray()
		if len(array) != 1 {
			return text, array
		}
		return text, array[0]
	}
	var floats = []float64{0.0, math.Copysign(0, -1)}
	for _, mantissa := range []float64{1, 1.5, 1.234567, 9.999, 5} {
		for _, exponent := range []int{-324, -323, -308, -100, -21, -7, -6, -5, -4, -3, -1, 0, 1, 5, 6, 7, 15, 16, 17, 20, 21, 22, 100, 307, 308} {
			var f = mantissa * math.Pow(10, float64(exponent))
			if math.IsInf(f, 0) || f == 0 {
				continue
			}
			floats = append(floats, f, -f)
		}
	}
	for _, f := range floats {
		n++
		var text, result = roundTrip(f)
		if g, ok := result.(float64); !ok || math.Float64bits(g) != math.Float64bits(f) {
			fail("float %v is written as %q which parses to %v", f, text, result)
		}
	}
	var parts = []float64{0.0, math.Copysign(0, -1), 1.5, -1.5, 0.1, 123456.0, 1e21, -1e21, 1e-7, -2.5e-7}
	for _, re := range parts {
		for _, im := range parts {
			n++
			var c = complex(re, im)
			var text, result = roundTrip(c)
			if g, ok := result.(complex128); !ok || math.Float64bits(real(g)) != math.Float64bits(re) || math.Float64bits(imag(g)) != math.Float64bits(im) {
				fail("complex %v is written as %q which parses to %v", c, text, result)
			}
		}
	}
	var integers = []int64{0, math.MaxInt64, math.MinInt64, math.MaxInt64 - 1, math.MinInt64 + 1}
	for k := int64(1); k <= 1000000000000000000/10; k *= 100 {
		integers = append(integers, k, -k, k-1, -(k - 1))
	}
	for _, i := range integers {
		n++
		var text, result = roundTrip(i)
		if g, ok := result.(int64); !ok || g != i {
			fail("integer %v is written as %q which parses to %v", i, text, result)
		}
	}
	var unsigneds = []uint64{0, 1, 9, 10, 15, 16, 255, 256, 4095, 65535, 65536, 1 << 31, 1<<32 - 1, 1 << 32, 1 << 62, 1 << 63, 1<<63 - 1, math.MaxUint64 - 1, math.MaxUint64, 0xabcdef}
	for _, u := range unsigneds {
		n++
		var text, result = roundTrip(u)
		if g, ok := result.(uint64); !ok || g != u {
			fail("unsigned %v is written as %q which parses to %v", u, text, result)
		}
	}
	if fails == 0 {
		t.Logf("BOUNDED-OK n=%d cases", n)
	} else {
		t.Logf("%d failing cases in all", fails)
	}
}
