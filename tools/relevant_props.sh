#!/bin/bash
# prints the properties whose functions under contract live in the packages a patch touches
p=$(readlink -f "$1"); props=""
grep -q '^+++ b/v4/agent/' "$p" && props="$props C02 C03 C07 C08 C09 C15 C17 C19"
grep -q '^+++ b/v4/collection/' "$p" && props="$props C01 C02 C03 C04 C05 C06 C09 C13 C14 C15 C16 C17 C18 C19 C20"
grep -q '^+++ b/v4/cdcn/' "$p" && props="$props C05 C10 C11 C12 C19"
grep -q '^+++ b/v4/Module.go' "$p" && props="$props C05 C19 C20"
echo $props | tr ' ' '\n' | sort -u | tr '\n' ' '
