#!/usr/bin/env python3
"""Replace the generated tables of DESIGN.md §5.1 (from the seeded table header to the refactoring count line) with fresh output of seeded_table.py."""
import subprocess, re
s = open('/verif/DESIGN.md').read()
t = subprocess.run(['python3', '/verif/tools/seeded_table.py'], capture_output=True, text=True, cwd='/verif').stdout.rstrip('\n')
a = s.index('| change | file / function | what it breaks | own check |')
m = re.search(r'\d+ of \d+ behaviour-preserving refactorings raise an alarm\.', s[a:])
b = a + m.end()
s = s[:a] + t + s[b:]
open('/verif/DESIGN.md', 'w').write(s)
print(t.splitlines()[-1])
