#!/bin/bash
# usage: tools/trypatch.sh <patch.diff> [props...]
# Applies a patch to a scratch copy of /repo (never to /repo itself), runs the quick checks on the copy, removes it.
# Prints one line per property: id exit-code number-of-violations first-violation.
set -u
patch="$(readlink -f "$1")"; shift
props="${@:-C01 C02 C03 C04 C05 C06 C07 C08 C09 C10 C11 C12 C13 C14 C15 C16 C17 C18 C19 C20}"
export GOFLAGS=-mod=mod GOPROXY=off GOSUMDB=off GOTOOLCHAIN=local
export VCGEN_WORKERS=${VCGEN_WORKERS:-3}
scratch=$(mktemp -d /tmp/trypatch.XXXXXX)
trap 'rm -rf "$scratch"' EXIT
rsync -a --exclude .git "${VERIF_REPO_SRC:-/repo}"/ "$scratch"/
( cd "$scratch" && git apply "$patch" ) || { echo "patch does not apply" >&2; exit 2; }
( cd "$scratch"/v4 && go build ./... ) || { echo "does not compile"; exit 3; }
run() {
  p=$1
  out=$(${VCGEN_BIN:-/verif/bin/vcgen} -repo "$2" -verif ${VERIF_DIR:-/verif} -prop $p -no-witness 2>&1); rc=$?
  v=$(echo "$out" | grep -m1 '^VIOLATION' | sed 's/.*obligation=//')
  n=$(echo "$out" | grep -c '^VIOLATION')
  echo "$p rc=$rc violations=$n first=[$v]"
}
export -f run
echo $props | tr ' ' '\n' | xargs -P ${JOBS:-6} -I{} bash -c "run {} $scratch" | sort
