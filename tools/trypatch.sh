#!/bin/bash
# usage: tools/trypatch.sh <patch.diff> [props...]   — apply a patch to /repo, run the quick checks, undo it.
# Prints one line per property: id exit-code first-violation.  Never leaves /repo modified.
set -u
patch="$(readlink -f "$1")"; shift
props="${@:-C01 C02 C03 C04 C05 C06 C07 C08 C09 C10 C11 C12 C13 C14 C15 C16 C17 C18 C19 C20}"
export GOFLAGS=-mod=mod GOPROXY=off GOSUMDB=off GOTOOLCHAIN=local
if ! git -C /repo diff --quiet; then echo "/repo has uncommitted changes" >&2; exit 2; fi
git -C /repo apply "$patch" || { echo "patch does not apply" >&2; exit 2; }
trap 'git -C /repo checkout -- . >/dev/null 2>&1' EXIT
( cd /repo/v4 && go build ./... ) || { echo "does not compile"; exit 3; }
run() {
  p=$1
  out=$(/verif/bin/vcgen -prop $p -no-witness 2>&1); rc=$?
  v=$(echo "$out" | grep -m1 '^VIOLATION' | sed 's/.*obligation=//')
  n=$(echo "$out" | grep -c '^VIOLATION')
  echo "$p rc=$rc violations=$n first=[$v]"
}
export -f run
echo $props | tr ' ' '\n' | xargs -P 8 -I{} bash -c 'run {}' | sort
