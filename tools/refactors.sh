#!/bin/bash
# run every behaviour-preserving refactoring against all checks: any alarm is a false alarm
cd /verif
for d in ${@:-refactors/*/*}; do
  [ -f $d/patch.diff ] || continue
  [ -f $d/result.all.txt ] && [ -z "${FORCE:-}" ] && continue
  tools/trypatch.sh $d/patch.diff $(tools/relevant_props.sh $d/patch.diff) > $d/result.all.txt 2>&1
  echo "$d: alarms: $(grep -v 'rc=0' $d/result.all.txt | tr '\n' ' ' | cut -c1-300)"
done
