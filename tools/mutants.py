#!/usr/bin/env python3
"""Must-fail runner: applies single-line mutants to /repo (one at a time, restored afterwards),
runs the checks of the given properties and reports which mutants raise a VIOLATION.
usage: tools/mutants.py <tsv> <file-substring> <prop>[,<prop>...] [--expect-quiet N,N]"""
import sys, subprocess, os, re

def sh(cmd, **kw):
    return subprocess.run(cmd, shell=True, capture_output=True, text=True, **kw)

def main():
    tsv, filt, props = sys.argv[1], sys.argv[2], sys.argv[3].split(",")
    env = "GOFLAGS=-mod=mod GOPROXY=off GOSUMDB=off GOTOOLCHAIN=local"
    rows = []
    for l in open(tsv):
        if l.startswith("#") or not l.strip():
            continue
        f, line, orig, mut = l.rstrip("\n").split("\t")[:4]
        if filt in f:
            rows.append((f, int(line), orig, mut))
    killed = 0
    for i, (f, line, orig, mut) in enumerate(rows):
        path = "/repo/v4/" + f
        src = open(path).read().split("\n")
        cands = [k for k, s in enumerate(src) if s.strip() == orig.strip()]
        if not cands:
            print(f"[{i}] {f}:{line} SKIP (original line not found): {orig.strip()}")
            continue
        k = min(cands, key=lambda k: abs(k + 1 - line))
        indent = src[k][: len(src[k]) - len(src[k].lstrip())]
        new = src[:]
        new[k] = indent + mut.strip()
        open(path, "w").write("\n".join(new))
        try:
            b = sh(f"cd /repo/v4 && {env} go build ./... 2>&1")
            if b.returncode != 0:
                print(f"[{i}] {f}:{k+1} NOBUILD {mut.strip()}")
                continue
            hit = []
            for p in props:
                r = sh(f"cd /verif && ./check {p} -no-witness 2>&1")
                vs = re.findall(r"obligation=(\S+)", r.stdout)
                if r.returncode == 1:
                    hit.append(f"{p}:{len(vs)}:{vs[0] if vs else ''}")
                elif r.returncode != 0:
                    hit.append(f"{p}:BROKEN({r.returncode})")
            status = "KILLED " if hit else "SURVIVED"
            if hit:
                killed += 1
            print(f"[{i}] {f}:{k+1} {status} {orig.strip()}  ==>  {mut.strip()}   {' '.join(hit)}")
        finally:
            open(path, "w").write("\n".join(src))
        sys.stdout.flush()
    print(f"{killed}/{len(rows)} killed")

if __name__ == "__main__":
    main()
