#!/usr/bin/env python3
"""Print the markdown tables of DESIGN.md §5 from seeded/*/*/ and refactors/*/*/ result files."""
import json, glob, os, re
def alarms(path):
    out = []
    if not os.path.exists(path):
        return None
    for l in open(path):
        m = re.match(r'(C\d\d) rc=(\d+) violations=(\d+) first=\[(.*?)( no-failing-input-found| failing-input-replayed-on-the-real-code)?\]', l)
        if m and m.group(2) == '1':
            out.append((m.group(1), m.group(4)))
    return out
print("| change | file / function | what it breaks | own check | other checks that alarm | first failed obligation |")
print("|--------|-----------------|----------------|-----------|--------------------------|-------------------------|")
tot = caught = 0
for d in sorted(glob.glob('seeded/*/*/')) + sorted(glob.glob('seeded2/*/*/')) + sorted(glob.glob('seeded3/*/*/')) + sorted(glob.glob('seeded4/*/*/')) + sorted(glob.glob('seeded5/*/*/')):
    pid, k = d.split('/')[1], d.split('/')[2]
    if d.startswith('seeded5'):
        k = 'r5-' + k
    elif d.startswith('seeded4'):
        k = 'r4-' + k
    elif d.startswith('seeded3'):
        k = 'r3-' + k
    elif d.startswith('seeded2'):
        k = 'r2-' + k
    meta = json.load(open(d + 'meta.json')) if os.path.exists(d + 'meta.json') else {}
    al = (alarms(d + 'result.all.txt') or []) + [a for a in (alarms(d + 'result.txt') or []) if a[0] == pid]
    own = [a for a in al if a[0] == pid]
    others = sorted(set(a[0] for a in al if a[0] != pid))
    tot += 1
    caught += bool(own)
    files = ', '.join(os.path.basename(f) for f in meta.get('files', []))
    title = (meta.get('title') or '').replace('|', '/')
    first = own[0][1] if own else (al[0][1] if al else '')
    first = re.sub(r'^[a-z]+\.', '', first)
    print(f"| {pid}/{k} | {files} | {title[:110]} | {'**caught**' if own else 'missed'} | {' '.join(others)} | `{first[:70]}` |")
print()
print(f"{caught} of {tot} seeded changes are caught by the check of the property they were written against.")
print()
print("| refactoring | file / function | alarms (any alarm is a false alarm) |")
print("|-------------|-----------------|--------------------------------------|")
n = fa = 0
for d in sorted(glob.glob('refactors/*/*/')):
    meta = json.load(open(d + 'meta.json')) if os.path.exists(d + 'meta.json') else {}
    al = alarms(d + 'result.all.txt')
    n += 1
    fa += bool(al)
    print(f"| {d.split('/')[1]}/{d.split('/')[2]} | {meta.get('file','')} {meta.get('function','')} — {(meta.get('title') or '')[:80]} | {'none' if not al else ' '.join(a[0]+':'+a[1][:50] for a in al)} |")
print()
print(f"{fa} of {n} behaviour-preserving refactorings raise an alarm.")
