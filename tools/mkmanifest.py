#!/usr/bin/env python3
"""Regenerates /verif/MANIFEST.json from the table below (run from /verif)."""
import json, subprocess, os

CLAIMED = {
 "C17": dict(
  text="Deductive proof, for all inputs and all iterator states, of every method of iterator_ against the IteratorLike contracts "
       "(slot arithmetic, zero value at the ends, clamping in ToSlot, snapshot immutability by the frame obligation), plus the "
       "GetIterator contracts of the collections (fresh private copy). Unbounded: the size and the values are symbolic.",
  note="Trusted: go/ssa front end, the VC generator in /verif/engine, z3/cvc5; integers are mathematical with exact wrap-around; "
       "allocation never fails. Snapshot independence of later collection mutations rests on the ownership discipline "
       "(distinct collections never share backing arrays), which the freshness postconditions of the constructors establish.",
  design="DESIGN.md §4.C17"),
}

NOT_YET = {}

TECH = "contract-based deductive verification: weakest-precondition style VCs generated from go/ssa of /repo, contracts in //go:build verif comment files, discharged by z3 5.1 / z3 4.8 / cvc5"

def main():
    props = [json.loads(l) for l in open("properties.jsonl")]
    checks, na = [], []
    for p in props:
        pid = p["id"]
        if pid in CLAIMED:
            c = CLAIMED[pid]
            checks.append({
                "property_id": pid,
                "quick_cmd": f"./check {pid} --tier quick",
                "thorough_cmd": f"./check {pid} --tier thorough",
                "evidence_file": f"/verif/evidence/{pid}.json",
                "replay_cmd_template": "./check --replay {path}",
                "engine": "vcgen",
                "level_claimed": {"category": "proof", "text": c["text"], "design_ref": c["design"]},
                "level_note": c["note"],
                "technique": TECH,
            })
        else:
            na.append({"property_id": pid, "reason": NOT_YET.get(pid, "contracts for this property are not finished yet in this tree (time, not the technique; see DESIGN.md §6); the property is not claimed")})
    commits = subprocess.run(["git", "-C", "/repo", "log", "--format=%H %s"], capture_output=True, text=True).stdout.splitlines()
    hooks = [l.split()[0] for l in commits if " verif:" in l or l.split(" ",1)[1].startswith("verif")]
    man = {
        "version": 1,
        "setup_cmd": "cd /verif/engine && GOFLAGS=-mod=mod GOPROXY=off GOSUMDB=off GOTOOLCHAIN=local go build -o /verif/bin/vcgen . && cd /repo/v4 && GOFLAGS=-mod=mod GOPROXY=off GOSUMDB=off GOTOOLCHAIN=local go test -vet=off -count=1 -run '^$' ./... >/dev/null",
        "hooks": {
            "guard": "verif",
            "enable": "contracts are comment-only files v4/**/contracts_verif.go behind //go:build verif; the engine reads them directly from the working tree (no code is compiled in)",
            "baseline_off_cmd": "cd /repo/v4 && GOFLAGS=-mod=mod GOPROXY=off GOSUMDB=off GOTOOLCHAIN=local go test -vet=off -count=1 ./...",
            "source_commits": hooks,
            "add_only": True,
        },
        "engines": [{"name": "vcgen", "path": "/verif/engine", "serves_properties": sorted(CLAIMED), "kind_free_text": "VC generator over go/ssa + SMT back ends (z3 5.1.0, z3 4.8.12, cvc5 1.0)"}],
        "checks": checks,
        "not_applicable": na,
        "notes": "Every check regenerates its verification conditions from /repo's working tree on every run. exit 0 = all obligations discharged (KNOWN-FINDING lines possible); exit 1 = VIOLATION lines; exit 2 = the check itself is broken.",
    }
    json.dump(man, open("MANIFEST.json", "w"), indent=1)
    print("claimed:", sorted(CLAIMED), "not claimed:", [x["property_id"] for x in na])

if __name__ == "__main__":
    main()
