#!/usr/bin/env python3
"""Regenerates /verif/MANIFEST.json from the table below (run from /verif)."""
import json, subprocess, os

CLAIMED = {
 "C01": dict(
  text="Deductive proof that every public method of array_ and list_ (constructors, Get/Set/Insert/Append/Remove value(s), RemoveAll, GetIndex, Contains*, "
       "AsArray, GetIterator, GetSize, IsEmpty, Concatenate) refines the abstract ordinal-indexed sequence: the postcondition of each operation is an equation "
       "over the whole view, every out-of-range case is an exceptional postcondition `panics and view unchanged`, every loop has an inductive invariant and a variant "
       "(termination), and a frame obligation shows nothing else is written. By induction over histories this covers all finite histories, all sizes and all element types "
       "(the element type is an uninterpreted sort); operands may alias the receiver.",
  note="Trusted: go/ssa front end, /verif/engine, z3/cvc5. Structural equality ceq used by GetIndex/Contains* is the collator's CompareValues, taken as an uninterpreted total predicate here "
       "(its correctness is C08). Allocation never fails; make panics iff size<0 or >2^62; sequences are at most 2^61 long. Sort/Reverse/Shuffle delegations are under C09.",
  design="DESIGN.md §4.C01"),
 "C02": dict(
  text="Deductive proof of the set_ representation invariant (strictly ascending under the collator) across every mutator and constructor, of findIndex (binary search: "
       "loop invariant, variant, result characterisation), and of whole-view membership postconditions (smem with a Skolem witness) for AddValue(s), RemoveValue(s), Contains*, GetIndex; "
       "for all sizes, values and any collator that is a total preorder.",
  note="Hypothesis (the property's own): the collator is a total preorder — for the default collator that is C07's conclusion. Trusted: front end, engine, solvers; the list contracts the set relies on are proved under C01. "
       "Four sequence-membership lemmas are proved by the solvers as separate obligations and then used as axioms.",
  design="DESIGN.md §4.C02"),
 "C13": dict(
  text="Deductive proof of the stack_ invariant 1 <= capacity and size <= capacity for every constructor and method, of LIFO postconditions over the whole view "
       "(AddValue = insert at position 0, RemoveTop = remove position 0 and return it), and of the exceptional postconditions (full / empty: panics, view unchanged); all capacities, sizes and histories.",
  note="Trusted: front end, engine, solvers; the class constant defaultCapacity_ >= 1 is no longer a hypothesis: it is a construction invariant over an immutable field, proved where the class object is allocated (Stack(): obligation Stack.constinv.stackClass_.1) and assumed of every class receiver. The registry map is assumed non-nil (initialised in its declaration). The list operations used are proved under C01.",
  design="DESIGN.md §4.C13"),
 "C15": dict(
  text="Deductive proof that And/Or/Sans/Xor return a fresh, strictly ordered set whose membership is exactly intersection/union/difference/symmetric difference of the operands, "
       "and that the operands' views are unchanged, without assuming the operands differ (aliasing allowed); all sets, all element types, any total-preorder collator.",
  note="Hypotheses (stated as preconditions): both operands use the same collator and it is a total preorder. Trusted: front end, engine, solvers. "
       "For sets of mixed-type elements the default collator orders by type class (collator getType): that classification is outside the contract language and is covered by a BOUNDED stand-in on the real code (/verif/bounded/gettype_test.go; labelled bounded, not counted as proved).",
  design="DESIGN.md §4.C15"),
 "C17": dict(
  text="Deductive proof, for all inputs and all iterator states, of every method of iterator_ against the IteratorLike contracts "
       "(slot arithmetic, zero value at the ends, clamping in ToSlot, snapshot immutability by the frame obligation), plus the "
       "GetIterator contracts of array_, list_, set_, stack_ (fresh private copy: MakeFromArray requires a locally fresh array). Unbounded: the size and the values are symbolic.",
  note="Trusted: go/ssa front end, the VC generator in /verif/engine, z3/cvc5; integers are mathematical with exact wrap-around; "
       "allocation never fails. Snapshot independence of later collection mutations rests on the ownership discipline "
       "(distinct collections never share backing arrays), which the freshness postconditions of the constructors establish.",
  design="DESIGN.md §4.C17"),
}

CLAIMED.update({
 "C03": dict(
  text="Deductive proof of the catalog_ coupling invariant between the key index (Go map) and the association list — every listed association is indexed under its key, every indexed key is listed, keys are pairwise distinct — "
       "across Make/MakeFromSequence/MakeFromArray, SetValue (in place or append), RemoveValue, RemoveAll, GetValue(s), GetKeys, with map-level postconditions (membership kmem, value-of-key, positions) over the whole view; all histories, key and value types.",
  note="Trusted: front end, engine, solvers; list operations proved under C01; keys are ==-reflexive (no NaN keys); heap well-formedness (elements of a sequence that exists at entry exist at entry). "
       "MakeFromMap, RemoveValues and the Sort/Reverse/Shuffle delegations of Catalog are not yet under contract (sorting is C09).",
  design="DESIGN.md §4.C03"),
 "C14": dict(
  text="Deductive proof that map_ (a Go map, modelled as domain/get/cardinality with a ghost enumeration for `range`) satisfies Go-map postconditions for GetValue, SetValue, RemoveValue, RemoveAll, IsEmpty, GetSize, "
       "GetKeys, GetValues, AsArray and GetIterator (each association exactly once: distinct keys, every key listed, fresh association objects), and that MakeFromMap/MakeFromArray/MakeFromSequence contain exactly the given associations, the last one winning.",
  note="Trusted: the Go-map model (including `range` enumerating each key of the entry snapshot exactly once), front end, engine, solvers; keys are ==-reflexive. Map.RemoveValues is not under contract.",
  design="DESIGN.md §4.C14"),
 "C16": dict(
  text="Deductive proof of the documented laws and purity of Concatenate (a followed by b), Merge (a's keys in a's order, then b's new keys in b's order, b's value winning) and Extract (exactly the requested keys the catalog contains, in request order): "
       "results are fresh with fresh association objects, operands' views and values are unchanged (frame + unchanged(view), unchanged(aval)), aliasing of operands allowed.",
  note="Hypotheses: operand catalogs are well keyed (distinct keys, non-nil associations) — the catalog_ invariant proved under C03. Trusted: front end, engine, solvers, heap well-formedness.",
  design="DESIGN.md §4.C16"),
})

CLAIMED.update({
 "C09": dict(
  text="Full deductive proof of the sorter on the real code: mergeArrays and the bottom-up sortValues (both loops, clamped bounds, array swapping, final copy) leave a permutation of the input for EVERY ranking function "
       "(multiset counts; each ranker call returns an unconstrained value), terminate (variants on all loops), write nothing outside values[0:len], and yield an ascending result whenever the ranker is a deterministic total preorder "
       "(run structure via an alignment theory whose lemmas are themselves proved from div/mod by SMT, one by Lean 4 + Mathlib in the thorough tier); ReverseValues reverses exactly; ShuffleValues permutes; "
       "the Sort/Reverse/Shuffle methods of Array, List and Catalog are proved to have the same effect on their views, and the ordering postcondition is carried through the SorterLike and Sortable interface contracts (a collection sorted with a ranker is ordered by that ranker). Count lemmas (agree, split, extend, swap, reverse) are proved by mechanised induction.",
  note="Hypotheses: a ranker call terminates normally and does not touch the arrays being sorted; randomizeIndex's body is now verified (result in [0,size)) against assumed contracts of crypto/rand.Int, big.NewInt and (*big.Int).Int64; the one environment assumption is that the system random source does not fail. sorter_.ReverseValues is verified against the SorterLike.ReverseValues interface contract its callers use. "
       "Assumed: align_half in the quick tier (Lean-checked in thorough); 'equal multisets imply a bijection' (perm_bijection) links the two formulations of permutation for Catalog. "
       "Slices are at most 2^61 long (so width*2 cannot overflow). Trusted: front end, engine, solvers.",
  design="DESIGN.md §4.C09"),
})

CLAIMED.update({
 "C18": dict(
  text="Deductive proof of freshness/ownership postconditions on the API entries that take or return Go arrays, maps or sequences: every constructor of Array, List, Set, Stack, Catalog, Map and the iterator "
       "returns an object whose backing store was allocated inside the call (fresh), AsArray/GetValues/GetKeys/RemoveValues/GetIterator and the class functions return fresh results (Iterator.MakeFromArray requires a locally fresh array at every call site), "
       "and the bulk operations are verified without assuming that the operand differs from the receiver (self-operand calls behave as with a copy). Frame obligations show that nothing but the receiver's own representation is written.",
  note="Not covered: Queue entries (they involve the mutex/channel machinery of C04, not yet under contract). Trusted: front end, engine, solvers; ownership discipline (representation objects are never shared between collections) is established by these very freshness postconditions.",
  design="DESIGN.md §4.C18"),
})

CLAIMED.update({
 "C07": dict(
  text="Deductive proof that each leaf ranker (booleans, bytes, runes, signed, unsigned, floats, strings, complex) computes the natural rank of its kind over the full symbolic domain (loop-free code, complete proofs), "
       "with SMT lemmas that these natural ranks are total preorders (float/complex transitivity fails exactly at NaN and at the complex branch cut: recorded known findings, re-proved under their guards); "
       "of rankIntrinsics' kind dispatch (every supported reflect kind goes to the right ranker with the right conversions; panics only for unsupported kinds); of rankValues' treatment of undefined/nil values "
       "(nil ranks before every defined value) and of mixed types (ordered by type name); of rankArrays: lexicographic order with a proper prefix first, including the operand swap; and of rankMaps' key discipline (after sorting, every key array still consists of keys of its own map, and each map is indexed only with its own keys). "
       "Termination of the whole mutually recursive traversal is proved by a lexicographic variant (see C08).",
  note="NOT decided deductively (no contract within reach; reflective code): that the lexicographic/keyed lifts of a preorder are again preorders (standard mathematics, not mechanised), rankMaps beyond its empty/prefix cases "
       "(key arrays are sorted through reflection), rankSequences/rankInterfaces/rankStructures results (reflect Method/Call/Field), and insertion-order independence for maps. "
       "Assumed contracts for reflect accessors (pure, kind-correct, non-panicking), cmplx.Abs/Phase as pure functions, Go string < as a strict total order. getType's body is executed but its result is the uninterpreted gtype() (string prefixes are outside the contract language): a BOUNDED stand-in (/verif/bounded/gettype_test.go, exhaustive over the 17 predeclared kinds x 7 type constructors, interface{} and named/generic types; labelled bounded, not counted as proved) checks the classification on the real code. "
       "Known findings: NaN and complex branch-cut break transitivity.",
  design="DESIGN.md §4.C07"),
 "C08": dict(
  text="Deductive proof of the collator's depth discipline and termination on the real reflective code: every private compare*/rank* function restores depth_ on normal exits, the public CompareValues/RankValues restore it on panics too "
       "(so a depth-limit panic leaves the collator usable), the mutual recursion is bounded by the lexicographic variant (maximum - depth, function rank, pointer nesting / operand swap) — which is how the self-containing-association stack overflow was found and fixed — "
       "plus agreement lemmas compare == (rank == Equal) per primitive kind (floats/complex: known findings at NaN and at rounding collisions), compareArrays = same length and element-wise equal, compareValues' nil/undefined/mixed-type cases, compareMaps size cases.",
  note="NOT decided deductively: structural equality through reflect Method/Call (sequences, interfaces), map value comparison beyond sizes, single-point-mutation sensitivity over the whole universe. "
       "Assumed: reflect accessors pure/non-panicking, finite pointer nesting (ptrh), reflect.MapIter delivers rlen entries. The collator class constructors (Make, MakeWithMaximum) are under contract and establish the depth invariant; the class default maximum >= 0 is a construction invariant proved where the class is allocated (Collator()). getType: bounded stand-in (see C07). Known findings: NaN, complex rounding collisions.",
  design="DESIGN.md §4.C08"),
})

CLAIMED.update({
 "C12": dict(
  text="Zero-annotation safety sweep (one obligation per possible Go runtime panic: nil receiver, index, slice bounds, non-comma-ok type assertion) over every function of parser.go, scanner.go and token.go, discharged with thin contracts: "
       "every parse* method returns a non-nil token on both outcomes (what formatError dereferences), push-back stack and token queue are distinct non-nil objects holding non-nil tokens, the scanner cursor invariant "
       "0 <= first <= next <= len(runes) with line <= 1 + consumed runes, indexOfLastEOL's exact result, frame conditions (parse* only touch the two token containers), and — over the scanner's own history of emitted tokens — that an error token is followed by nothing but the end-of-file token (the scanner stops at the first error). For every input string — the source is symbolic — no path of ParseSource reaches a Go runtime error.",
  note="NOT decided (outside the family or no contract within reach): termination of the input-driven loops and recursion (hangs), Go stack exhaustion on deep nesting, the scanner goroutine being left blocked after a parser panic, "
       "exactness of the reported line/column. Assumptions (listed in evidence): regexp submatches are substrings of the text; hexadecimal tokens match 0x[0-9a-f]+; every token's line lies inside the source (formatError); "
       "tokens taken from the queue are the non-nil ones the scanner added (producer side checked in emitToken); package-level class objects are non-nil; scannerClass_.MatchToken/FormatToken and strconv/strings/fmt are external.",
  design="DESIGN.md §4.C12"),
})

CLAIMED.update({
 "C10": dict(
  text="Deductive proof for formatter.go of (a) independence of earlier calls: whatever state an earlier (also failed) call left, FormatValue starts the traversal from depth 0 and an empty buffer and leaves that state on return "
       "(strings.Builder modelled by its accumulated text); (b) balanced depth bookkeeping in every format* function on normal exits; (c) termination of the mutually recursive traversal by the variant (maximum - depth, function rank) — "
       "which holds for multi-item sequences and FAILS for single-item sequences and association values (recorded known finding: a self-containing singleton overflows the stack; witnessed on the real code); "
       "(d) a zero-annotation runtime-safety sweep (nil, index, slice, type assertion) over all format* functions; (e) formatMap writes every key with the value the map holds under that very key (call-site obligations on formatAssociation's operands).",
  note="NOT decided deductively (no contract within reach): that ParseSource(FormatValue(v)) reproduces v and the text (element order, kinds, key/value pairing, numeric literal languages such as exponent floats) — this needs regexp/strconv semantics and a formatter–parser pair proof. "
       "BOUNDED stand-in (labelled bounded, not counted as proved; /verif/bounded/quoted_tokens_test.go, run on the real code through go test -overlay on every check): for every string of length <= 3 over a 14-character alphabet and every rune below 0x300 (plus 8 special ones), the text the formatter writes (strconv.Quote/QuoteRune) is scanned as exactly one token whatever follows it and parses back to the same value. "
       "The formatter class constructors are now under contract (they establish the depth invariant; the class default is a hypothesis because the class object is allocated by the package initialiser). Assumed: reflect accessors pure and non-panicking, getters return one value, the reflective HasNext call yields a bool (trusted runtime check), strings.Builder contracts.",
  design="DESIGN.md §4.C10"),
})

CLAIMED.update({
 "C11": dict(
  text="Deductive proof of the clause 'accepted text is never silently altered': for every token the parser accepts as an intrinsic, the returned value is exactly the value the token text denotes under the (assumed) strconv contracts — "
       "a conversion error can no longer be discarded (boolean, complex, float, hexadecimal, integer, nil, rune, string; 8 postconditions on parseIntrinsic, exceptional postcondition on checkLiteral) — for all token texts (symbolic). "
       "Also proved: parseToken returns the token value and type it matched, tokens handed on are non-nil, and every ParseSource call works on a token queue and a push-back stack allocated by that very call (nothing is carried over from an earlier, possibly failed, call).",
  note="NOT decided deductively: that every derivation of Syntax.cdsn is accepted with its intended collection (needs a soundness/completeness proof of the backtracking parser plus regexp ordered-alternation semantics), "
       "that the push-back stack (capacity 4) never overflows, and independence from goroutine scheduling. BOUNDED stand-in for the string/rune/escape token patterns (labelled bounded; /verif/bounded/quoted_tokens_test.go, exhaustive over strings of length <= 3 over 14 characters x 5 right contexts and 776 runes): the quoted text is matched as exactly one token of its kind and denotes the Go value; the other token kinds and the collection grammar have no stand-in. "
       "Assumed: strconv.Parse*/Unquote fail exactly when the text has no exact representation and otherwise return its value; MatchToken's first element is the token's match.",
  design="DESIGN.md §4.C11"),
})

CLAIMED.update({
 "C20": dict(
  text="Deductive proof, on the real Module.go code, that all eight universal constructors — Association, Array, Catalog, List, Map, Queue, Set and Stack — agree with the class constructors and with the parser for their documented data forms "
       "(none / size or capacity / Go array or Go map / CDCN source): the postcondition of each form is stated with the same specification functions as the class-level constructor (view, capacity, akey/aval, set membership under the set's collator, key membership and last-value-wins for catalogs and maps, parsedval(source) = what ParseSource returns), "
       "argument type switches are modelled with symbolic dynamic-type tags so that identical key and value types (tid.K == tid.V) are a possible world. Five genuine defects were found this way and repaired.",
  note="NOT under contract: the sequence (Sequential[V]), collator and association-array forms, and a notation passed as an extra argument in either position (contracts require at most one argument and name the accepted forms in a precondition; loops that only those forms reach are proved unreachable under it). "
       "Assumed: reflect.Type.Implements agrees with the type assertion; ParseSource is a function of the source text (parsedval) and returns non-nil, already allocated associations; class accessors return non-nil classes.",
  design="DESIGN.md §4.C20"),
})

CLAIMED.update({
 "C04": dict(
  text="Deductive proof of the sequential half of the linearizability argument on the real queue.go: every public queue_ method, run without interference, has exactly one FIFO effect on the abstract queue "
       "(AddValue appends, RemoveHead returns and removes the head or reports ok=false only when closed and empty, RemoveAll empties, GetSize/IsEmpty/AsArray report the abstract content in order and GetSize <= capacity), "
       "the representation invariant (tokens in available_ == len(values_) <= capacity_) holds between calls, every Lock is paired with an Unlock on every path including panics, "
       "a guarded-by obligation is generated for every read or write of values_ and available_ and for every method call on an object read from them (mutex_ must be held at that moment unless the queue is still confined to its allocating call), no mutex acquired by the call is held at a channel operation that may block, "
       "and an INTERFERENCE PASS re-executes the methods with the guarded fields re-read under the type's lock invariant after every Lock (and the lock invariant re-proved before every Unlock): GetSize() <= capacity is proved whatever other threads do between this thread's steps. "
       "The guarded-by obligations that fail are a genuine defect (unlocked reads of available_ racing with RemoveAll); it is recorded as a known finding with a go test -race witness that is re-run on every check.",
  note="NOT decided by this family: interference between concurrently running calls (stability of each method's intermediate assertions under the other threads' steps), hence linearizability under every schedule, "
       "real-time order across overlapping calls, back-pressure timing and absence of data races beyond the guarded-by discipline. These are whole-history / schedule properties; the contracts decide the per-call effect, lock pairing and lock discipline only. "
       "sync.Mutex and Go channel semantics are assumed (channel = counter of tokens + closed flag).",
  design="DESIGN.md §4.C04"),
 "C05": dict(
  text="Deductive proof of the constructor clause on the real code: a blocking queue operation invoked on a queue that the calling function itself allocated (still thread-confined, so nobody else can ever make room) "
       "must be provably non-blocking: precondition `localfresh(q) ==> len(view(q)) < capacity(q)` on QueueLike.AddValue, checked at every call site in MakeFromArray, MakeFromSequence and their loops with invariants that count the values added so far. "
       "The original MakeFromSequence failed it (capacity 16 regardless of the number of initial values: self-deadlock for N > 16) and was repaired by a fix: commit; the parser path (parseSequence -> MakeFromSequence) inherits the contract.",
  note="NOT decided by this family: lost wake-ups and termination of producer/consumer programs under every schedule (liveness over schedules; a contract has no notion of 'eventually'). "
       "Decided in addition: the module-level Queue constructor (its source form blocked for more than 16 values: second fix: commit) and 'no mutex held at a blocking channel operation' in RemoveHead/AddValue (a consumer parked with the lock held deadlocks every producer).",
  design="DESIGN.md §4.C05"),
 "C06": dict(
  text="Deductive proof, on the real Fork/Split/Join code including the three helper goroutine bodies (closures verified as functions of their captured variables), of the stream bookkeeping each helper performs, "
       "stated over thread-local ghost histories that hold under any interference (got(q): what this thread removed from q, put(q): what it added, qclosed(q)): "
       "Fork appends exactly the values taken from the input, in order, to every output; Split appends the i-th value taken to output rr(i,n) as that output's rcount(i,rr(i,n),n)-th new value and nothing else anywhere (rr/rcount: round-robin definitions; rr(i,n) = i mod n proved in Lean in the thorough tier; slots are proved pairwise distinct: no loss, no duplication); "
       "Join appends to its output, as i-th value, the rcount-th value taken from input rr(i,n); all outputs are closed after the input reports closed-and-drained; the wait group is incremented once before the spawn and decremented exactly once on every exit path of the helper including panics; "
       "the helper's preconditions (distinct, non-nil, already-allocated queues) are proved at the go statement; lemma split_then_join composes the two contracts over FIFO intermediate queues.",
  note="NOT decided by this family: that the helper goroutines terminate (the receive loop is marked `decreases *`), delivery under every schedule, and the FIFO behaviour of the intermediate queues under concurrency (that is C04's undecided half). "
       "Join's contract requires distinct input queues (what Fork and Split return); Join on a list naming one queue twice is outside the contract.",
  design="DESIGN.md §4.C06"),
})

CLAIMED.update({
 "C19": dict(
  text="Deductive proof, on every method with a receiver that is under contract (246 functions: all collection, iterator, collator, sorter, formatter, parser, scanner and notation methods and class constructors), of the write-footprint side of instance independence: "
       "(1) a write obligation at every store and at every location a callee's contract may modify — the target is an object allocated by this very call or is named by the function's own modifies clauses (which are rooted in the receiver's representation or in explicit arguments); unlike a two-state frame this also sees transient writes that are undone before return (the collator's depth counter); "
       "(2) the two-state frame obligations of the same functions; (3) ownership posts where a constructor hands out mutable helper objects (a default sorter owns the collator behind its ranker; a set owns its collator; String() and NotationLike.FormatValue write nothing that existed before the call); "
       "(4) for the eleven generic class accessors: guarded-by obligations on the package-level registry maps (every read, lookup and update happens with the registry mutex held), lock pairing on every path, and `the class returned is the one registered under the type's name, and an existing entry is reused'. "
       "With the freshness/ownership results of C18 (distinct instances have disjoint representations) this gives: operations on distinct instances write disjoint memory and read only their own or never-written state, hence commute and are race-free. "
       "Three genuine defects were found: two repaired (shared formatter behind String(); shared collator behind every default sorter), one recorded as a known finding with a -race witness (set algebra results share the first operand's collator).",
  note="NOT decided by this family: that the Go race detector reports nothing on every schedule (the contracts decide the footprint discipline, not executions), reads (a read footprint is not tracked: soundness of the independence argument rests on `nothing shared is ever written', which the write obligations establish for the functions under contract), "
       "functions not under contract (Module.go constructors other than Association/List/Stack/Array/Queue; fmt/reflect/strings internals are assumed not to write user-visible state), user-supplied rankers and collators (explicit sharing by the caller). "
       "The registry accessors assume the calling thread does not already hold the registry mutex, and sync.Mutex semantics.",
  design="DESIGN.md §4.C19"),
})

NOT_YET = {}

TECH = "contract-based deductive verification: weakest-precondition style VCs generated from go/ssa of /repo, contracts in //go:build verif comment files, discharged by z3 5.1 / z3 4.8 / cvc5"

BOUNDED = {
 "C02": "; the decision is deductive — plus one bounded stand-in (exhaustive finite-domain run of the real code, labelled bounded, never counted as proved) for collator getType, a string classification outside the contract language",
 "C07": "; the decision is deductive — plus one bounded stand-in (exhaustive finite-domain run of the real code, labelled bounded, never counted as proved) for collator getType, a string classification outside the contract language",
 "C08": "; the decision is deductive — plus one bounded stand-in (exhaustive finite-domain run of the real code, labelled bounded, never counted as proved) for collator getType, a string classification outside the contract language",
 "C15": "; the decision is deductive — plus one bounded stand-in (exhaustive finite-domain run of the real code, labelled bounded, never counted as proved) for collator getType, a string classification outside the contract language",
 "C10": "; the decision is deductive — plus one bounded stand-in (exhaustive finite-domain run of the real code, labelled bounded, never counted as proved) for the scanner's string/rune token patterns (regexp semantics are outside the contract language)",
 "C11": "; the decision is deductive — plus one bounded stand-in (exhaustive finite-domain run of the real code, labelled bounded, never counted as proved) for the scanner's string/rune token patterns (regexp semantics are outside the contract language)",
}

def main():
    props = [json.loads(l) for l in open("properties.jsonl")]
    checks, na = [], []
    for p in props:
        pid = p["id"]
        if pid in CLAIMED:
            c = CLAIMED[pid]
            checks.append({
                "property_id": pid,
                "quick_cmd": f"./check {pid} --tier quick",
                "thorough_cmd": f"./check {pid} --tier thorough",
                "evidence_file": f"/verif/evidence/{pid}.json",
                "replay_cmd_template": "./check --replay {path}",
                "engine": "vcgen",
                "level_claimed": {"category": "proof", "text": c["text"], "design_ref": c["design"]},
                "level_note": c["note"],
                "technique": TECH + (BOUNDED.get(pid, "")),
            })
        else:
            na.append({"property_id": pid, "reason": NOT_YET.get(pid, "contracts for this property are not finished yet in this tree (time, not the technique; see DESIGN.md §6); the property is not claimed")})
    commits = subprocess.run(["git", "-C", "/repo", "log", "--format=%H %s"], capture_output=True, text=True).stdout.splitlines()
    hooks = [l.split()[0] for l in commits if " verif:" in l or l.split(" ",1)[1].startswith("verif")]
    man = {
        "version": 1,
        "setup_cmd": "cd /verif/engine && GOFLAGS=-mod=mod GOPROXY=off GOSUMDB=off GOTOOLCHAIN=local go build -o /verif/bin/vcgen . && cd /repo/v4 && GOFLAGS=-mod=mod GOPROXY=off GOSUMDB=off GOTOOLCHAIN=local go test -vet=off -count=1 -run '^$' ./... >/dev/null",
        "hooks": {
            "guard": "verif",
            "enable": "contracts are comment-only files v4/**/contracts_verif.go behind //go:build verif; the engine reads them directly from the working tree (no code is compiled in)",
            "baseline_off_cmd": "cd /repo/v4 && GOFLAGS=-mod=mod GOPROXY=off GOSUMDB=off GOTOOLCHAIN=local go test -vet=off -count=1 ./...",
            "source_commits": hooks,
            "add_only": True,
        },
        "engines": [{"name": "vcgen", "path": "/verif/engine", "serves_properties": sorted(CLAIMED), "kind_free_text": "VC generator over go/ssa + SMT back ends (z3 5.1.0, z3 4.8.12, cvc5 1.0)"}],
        "checks": checks,
        "not_applicable": na,
        "notes": "Every check regenerates its verification conditions from /repo's working tree on every run. exit 0 = all obligations discharged (KNOWN-FINDING lines possible); exit 1 = VIOLATION lines; exit 2 = the check itself is broken.",
    }
    json.dump(man, open("MANIFEST.json", "w"), indent=1)
    print("claimed:", sorted(CLAIMED), "not claimed:", [x["property_id"] for x in na])

if __name__ == "__main__":
    main()
