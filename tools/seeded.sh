#!/bin/bash
# usage: tools/seeded.sh [--all] [dirs...]  — run every seeded change against the check of its own property
# (--all: against all checks); writes seeded/<id>/<k>/result[.all].txt
cd /verif
all=""; if [ "${1:-}" = "--all" ]; then all=1; shift; fi
for d in ${@:-seeded/*/* seeded2/*/* seeded3/*/* seeded4/*/* seeded5/*/*}; do
  [ -f $d/patch.diff ] || continue
  id=$(basename $(dirname $d))
  if [ -n "$all" ]; then out=$d/result.all.txt; props="$(tools/relevant_props.sh $d/patch.diff) $id"; else out=$d/result.txt; props=$id; fi
  [ -f $out ] && [ -z "${FORCE:-}" ] && continue
  tools/trypatch.sh $d/patch.diff $props > $out 2>&1
  echo "$d: alarms: $(grep 'rc=1' $out | cut -d' ' -f1 | tr '\n' ' ') $(grep -v 'rc=' $out | head -2 | tr '\n' ' ')"
done
