package collection_test

import (
	"sync"
	"testing"

	col "github.com/craterdog/go-collection-framework/v4/collection"
)

// The result of a set operation is a different set instance from its operands, but it is built with
// the first operand's collator object (whose depth counter every comparison writes): using the result
// and the operand from two goroutines is a data race.
func TestVerifSetAlgebraSharesCollator(t *testing.T) {
	var class = col.Set[int](nil)
	var first = class.MakeFromArray([]int{1, 2, 3, 4, 5})
	var second = class.MakeWithCollator(first.GetCollator())
	second.AddValue(4)
	second.AddValue(9)
	var result = class.And(first, second)
	var wg sync.WaitGroup
	wg.Add(2)
	go func() {
		defer wg.Done()
		for i := 0; i < 2000; i++ {
			first.ContainsValue(i % 7)
		}
	}()
	go func() {
		defer wg.Done()
		for i := 0; i < 2000; i++ {
			result.ContainsValue(i % 7)
		}
	}()
	wg.Wait()
}
