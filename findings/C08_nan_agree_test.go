package agent

import (
	"fmt"
	"math"
	"testing"
)

// Witness: RankValues(NaN, 1) is Equal while CompareValues(NaN, 1) is false.
func TestVerifWitnessNaNAgree(t *testing.T) {
	var c = Collator[float64]().Make()
	var r = c.RankValues(math.NaN(), 1)
	var e = c.CompareValues(math.NaN(), 1)
	if r == EqualRank && !e {
		fmt.Println("WITNESS-DEFECT-PRESENT: rank Equal but compare false")
	} else {
		fmt.Println("WITNESS-DEFECT-ABSENT", r, e)
	}
}
