package agent

import (
	"fmt"
	"math"
	"testing"
)

// Witness for the known finding "NaN breaks transitivity of RankValues on floats":
// NaN ranks Equal to every float, so 1 ~ NaN, NaN ~ 2 but 1 < 2 strictly (lesser-or-equal is not transitive
// in the sense the property needs: 2 <= NaN <= 1 yet 2 > 1).
func TestVerifWitnessFloatNaN(t *testing.T) {
	var c = Collator[float64]().Make()
	var nan = math.NaN()
	var ab = c.RankValues(2, nan)
	var bc = c.RankValues(nan, 1)
	var ac = c.RankValues(2, 1)
	if ab != GreaterRank && bc != GreaterRank && ac == GreaterRank {
		fmt.Println("WITNESS-DEFECT-PRESENT: 2 <= NaN, NaN <= 1, but 2 > 1:", ab, bc, ac)
	} else {
		fmt.Println("WITNESS-DEFECT-ABSENT", ab, bc, ac)
	}
}
