package agent

import (
	"fmt"
	"math"
	"testing"
)

// Witness: -1+0i and -1-0i are == (rank Equal) but lie on opposite sides of 1+0i (phase +pi vs -pi).
func TestVerifWitnessComplexBranchCut(t *testing.T) {
	var c = Collator[complex128]().Make()
	var a = complex(-1, 0.0)
	var b = complex(-1, math.Copysign(0, -1))
	var d = complex(1, 0)
	var ab = c.RankValues(a, b)
	var bd = c.RankValues(b, d)
	var ad = c.RankValues(a, d)
	if ab != GreaterRank && bd != GreaterRank && ad == GreaterRank {
		fmt.Println("WITNESS-DEFECT-PRESENT: a <= b, b <= d, but a > d:", ab, bd, ad)
	} else {
		fmt.Println("WITNESS-DEFECT-ABSENT", ab, bd, ad)
	}
}
