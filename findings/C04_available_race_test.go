package collection

import (
	"fmt"
	"sync"
	"testing"
)

// Witness: AddValue and RemoveHead read v.available_ outside the mutex while RemoveAll replaces it
// under the mutex. Run under the race detector the unsynchronised read/write pair is reported.
func TestVerifWitnessAvailableRace(t *testing.T) {
	var queue = Queue[int](nil).MakeWithCapacity(1024)
	var group sync.WaitGroup
	group.Add(2)
	go func() {
		defer group.Done()
		for i := 0; i < 500; i++ {
			queue.AddValue(i)
		}
	}()
	go func() {
		defer group.Done()
		for i := 0; i < 500; i++ {
			queue.RemoveAll()
		}
	}()
	group.Wait()
	fmt.Println("WITNESS-DEFECT-ABSENT (no race reported)")
}
