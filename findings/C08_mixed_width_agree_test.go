package agent

import (
	"fmt"
	"testing"
)

// Witness: with the `any` collator, RankValues(int8(1), int64(1)) is Equal (both operands are widened to 64 bits)
// while CompareValues(int8(1), int64(1)) is false (Go interface equality: different dynamic types). Same for unsigned.
func TestVerifWitnessMixedWidthAgree(t *testing.T) {
	var c = Collator[any]().Make()
	var r = c.RankValues(int8(1), int64(1))
	var e = c.CompareValues(int8(1), int64(1))
	var ru = c.RankValues(uint16(1), uint(1))
	var eu = c.CompareValues(uint16(1), uint(1))
	if (r == EqualRank && !e) || (ru == EqualRank && !eu) {
		fmt.Println("WITNESS-DEFECT-PRESENT: rank Equal but compare false", r, e, ru, eu)
	} else {
		fmt.Println("WITNESS-DEFECT-ABSENT", r, e, ru, eu)
	}
}
