package agent

import (
	"fmt"
	"testing"
)

// Witness: two distinct complex numbers with equal magnitude and phase (after rounding) rank Equal but compare unequal.
func TestVerifWitnessComplexAgree(t *testing.T) {
	var c = Collator[complex128]().Make()
	var a = complex(1e-17, 1)
	var b = complex(2e-17, 1)
	var r = c.RankValues(a, b)
	var e = c.CompareValues(a, b)
	if r == EqualRank && !e {
		fmt.Println("WITNESS-DEFECT-PRESENT: rank Equal but compare false")
	} else {
		fmt.Println("WITNESS-DEFECT-ABSENT", r, e)
	}
}
