package cdcn

import (
	"fmt"
	"testing"

	col "github.com/craterdog/go-collection-framework/v4/collection"
)

// Witness: a list whose only item is itself. The formatter's depth only grows for multi-item sequences,
// so the singleton branch recurses forever: the process dies with a fatal stack overflow instead of eliding "...".
func TestVerifWitnessSingletonCycle(t *testing.T) {
	var notation = Notation().Make()
	var list = col.List[any](notation).Make()
	list.AppendValue(list)
	var text = Formatter().Make().FormatValue(list)
	fmt.Println("WITNESS-DEFECT-ABSENT", len(text))
}
